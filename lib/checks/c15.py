"""C15: teardown at any point releases every resource (DESIGN.md 4/C15).

Teardown points (after handle creation, after a rejected / accepted configuration, after init, after k pictures with or
without having drained, after EOS, after a partial drain, after the full drain) x configurations are enumerated; each session
runs in the ASan+LSan build under the controlled scheduler (a teardown that never returns is a detected deadlock)."""
import itertools
import json
import os
import re
import subprocess

import enc
import schedlib
import streams
import vlib

PID = "C15"
ENV = {"ASAN_OPTIONS": "detect_leaks=1:halt_on_error=1:exitcode=77:symbolize=1", "LSAN_OPTIONS": "exitcode=77:max_leaks=4", "UBSAN_OPTIONS": "halt_on_error=0"}


def leak_site(err):
    m = re.search(r"(Direct|Indirect) leak of \d+ byte", err)
    if not m:
        return None
    for fm in re.finditer(r"#\d+ 0x[0-9a-f]+ in (\S+)", err[m.start():]):
        f = fm.group(1)
        if not f.startswith(("__", "malloc", "calloc", "realloc", "posix_memalign", "__interceptor", "operator")):
            return f
    return "?"


TOOL_CFGS = ("hl2-lp2", "hl2-lp3", "hl2-scm1-palette0", "hl2-scm1", "hl2-tiles", "hl2-superres-grain")


def enc_cases(tier):
    cfgs = [("hl0", {"hierarchical_levels": 0}), ("hl3", {"hierarchical_levels": 3}), ("hl3-overlays", {"hierarchical_levels": 3, "enable_overlays": 1}),
            ("hl3-norecon", {"hierarchical_levels": 3, "recon_enabled": 0}), ("hl3-10bit", {"hierarchical_levels": 3, "encoder_bit_depth": 10}),
            ("hl2-lp4", {"hierarchical_levels": 2, "logical_processors": 4, "w": 128, "h": 128}),
            # the process / buffer counts of load_default_buffer_configuration_settings have three classes: 1 core, 2-3 cores, >= 4 cores
            ("hl2-lp2", {"hierarchical_levels": 2, "logical_processors": 2}), ("hl2-lp3", {"hierarchical_levels": 2, "logical_processors": 3}),
            # buffers that exist only with particular tools: palette / intrabc tokens (screen content), per-tile contexts, superres, film grain
            ("hl2-scm1-palette0", {"hierarchical_levels": 2, "screen_content_mode": 1, "palette_level": 0, "content": "screen"}),
            ("hl2-scm1", {"hierarchical_levels": 2, "screen_content_mode": 1, "content": "screen"}),
            ("hl2-tiles", {"hierarchical_levels": 2, "tile_rows": 1, "tile_columns": 1, "w": 128, "h": 128}),
            ("hl2-superres-grain", {"hierarchical_levels": 2, "superres_mode": 1, "superres_denom": 12, "superres_kf_denom": 12, "film_grain_denoise_strength": 10})]
    if tier == "quick":
        cfgs = cfgs[:3] + cfgs[5:]
    out = []
    for cname, cfg in cfgs:
        base = {"w": 64, "h": 64, "content": "grad", "enc_mode": 8, "recon_enabled": 1}
        base.update(cfg)
        n = 6 if tier == "quick" else 19
        for st in ("ih", "sp", "init"):
            out.append(("%s/stop_after=%s" % (cname, st), dict(base, n=1, stop_after=st)))
        out.append(("%s/rejected-configuration" % cname, dict(base, n=1, qp=100, stop_after="sp")))
        for k in range(0, n + 1):
            for pat in ("n", "d"):
                if tier == "quick" and k > 4 and k % 2 and pat == "d":
                    continue
                if tier == "quick" and cname in TOOL_CFGS and k not in (0, 2):
                    continue
                out.append(("%s/teardown-after-%d-pictures,%s" % (cname, k, "drained" if pat == "d" else "nothing-retrieved"),
                            dict(base, n=n, teardown_at=k, pat=pat)))
        out.append(("%s/teardown-after-eos-before-drain" % cname, dict(base, n=n, teardown_at=n + 1, pat="n")))
        for m in (1, n // 2):
            out.append(("%s/teardown-after-%d-packets-of-final-drain" % (cname, m), dict(base, n=n, teardown_at=n + 1 + m, pat="n")))
        out.append(("%s/full-session" % cname, dict(base, n=n)))
    # the configurations with few teardown points first: a deadline must not cut a whole configuration class
    out.sort(key=lambda c: 0 if c[0].split("/")[0] in TOOL_CFGS else 1)
    return out


def case(item):
    label, a, policy = item
    r = enc.session(a, "asan", sched=True, timeout=300, env=dict(ENV, VS_POLICY=str(policy)))
    if r.get("timeout"):   # under the scheduler a teardown that never returns is a detected deadlock; a wall-clock timeout gets one more, longer run
        r = enc.session(a, "asan", sched=True, timeout=1500, env=dict(ENV, VS_POLICY=str(policy)))
    o = {"label": label, "status": "ok", "viol": [], "pkt_hash": None}
    cls = label.split("/")[0]
    point = re.sub(r"\d+", "N", label.split("/")[1])
    if r.get("timeout"):
        o["status"] = "timeout"
        o["viol"].append(("C15:teardown-hangs@%s/%s" % (cls, point), "session exceeded the watchdog"))
        return o
    if r.get("deadlock") or r.get("livelock"):
        o["status"] = "deadlock"
        # where is the app thread?
        th = r.get("threads") or []
        app = [t for t in th if t[0] == 0]
        pending = point.startswith(("teardown-after-N-pictures,nothing-retrieved", "teardown-after-eos-before-drain", "teardown-after-N-packets-of-final-drain"))
        if pending and app and app[0][1] == "join":
            # one defect, whatever the configuration: coded pictures are pending, a kernel waits for an empty buffer and shutdown never wakes it
            key = "C15:teardown-hangs@output-pending"
        else:
            key = "C15:teardown-hangs@%s/%s" % (cls, point)
        o["viol"].append((key, "all threads blocked (app thread: %s): %s [%s]" % (app, json.dumps(th)[:160], label)))
        return o
    err = r.get("stderr", "")
    if "LeakSanitizer" in err:
        o["viol"].append(("C15:leak@%s" % leak_site(err), "memory allocated in %s is still allocated after deinit + deinit_handle [%s]" % (leak_site(err), label)))
    else:
        for kind, fn in enc.sanitizer_sites(err):
            if kind.startswith("asan:"):
                o["viol"].append(("C15:%s@%s" % (kind, fn), "%s in %s during teardown [%s]" % (kind, fn, label)))
    if not r.get("parsed"):
        o["status"] = "crash"
        if not o["viol"]:
            o["viol"].append(("C15:crash@%s/%s" % (cls, point), "process ended with status %s: %s" % (r.get("exit"), err[-200:])))
        return o
    if r.get("init_handle") != 0:
        o["status"] = "rejected"
        return o
    if r.get("deinit") not in (0, None) or r.get("deinit_handle") not in (0, None):
        o["viol"].append(("C15:teardown-error@%s/%s" % (cls, point), "deinit=%s deinit_handle=%s" % (r.get("deinit"), r.get("deinit_handle"))))
    if r.get("unjoined") not in (0, -1, None):
        o["viol"].append(("C15:threads-not-joined@%s/%s" % (cls, point), "%s library threads were created and never joined by deinit / deinit_handle" % r.get("unjoined")))
    if r.get("tasks") not in (1, None):
        o["viol"].append(("C15:threads-left@%s/%s" % (cls, point), "%s threads alive after deinit_handle" % r.get("tasks")))
    o["pkt_hash"] = "%s|%s" % (label, r.get("npk"))
    o["points"] = r.get("points", 0)
    return o


def dec_case(item):
    label, pre, threads, k = item
    exe = schedlib.build_decdrv("asan")
    r = schedlib.run_schedule(exe, [pre, "threads=%d" % threads, "teardown_after=%d" % k], [], env=ENV, timeout=300)
    v = []
    err = r["stderr"]
    out = r.get("out") or {}
    if r["timeout"] or r["rc"] == 3:
        v.append(("C15:teardown-hangs@decoder,threads=%d" % threads, "decoder teardown after %d temporal units does not return: %s" % (k, json.dumps(out)[:160])))
    elif "LeakSanitizer" in err:
        v.append(("C15:leak@%s" % leak_site(err), "decoder (threads=%d, %d temporal units): memory allocated in %s is still allocated after teardown" % (threads, k, leak_site(err))))
    elif r["rc"] != 0:
        site = enc.sanitizer_site(err)
        v.append(("C15:%s@%s" % (site if site else ("crash", "decoder")), "decoder teardown fails with status %s" % r["rc"]))
    return {"label": label, "viol": v, "status": "ok" if not v else "bad"}


ACCT_LD = "-Wl," + ",".join("--wrap=" + w for w in ("malloc", "calloc", "realloc", "free", "posix_memalign"))


def cycles_case(item):
    label, a = item
    exe = vlib.cc_harness("rel", "encdrv_acct", ["encdrv.c", "vs_stub.c", "memacct.c"], extra_ldflags=ACCT_LD)
    try:
        p = subprocess.run([exe] + enc.argv_of(dict(a, cycles=5)), stdout=subprocess.PIPE, stderr=subprocess.PIPE, timeout=300, env=dict(os.environ, SVT_LOG="-2"))
        r = {"all": [], "stderr": p.stderr[-300:].decode("latin1")}
        for l in p.stdout.decode("latin1").split("\n"):
            try:
                r["all"].append(json.loads(l))
            except Exception:
                pass
    except subprocess.TimeoutExpired:
        r = {"all": [], "stderr": "timeout"}
    heaps = [x["heap_in_use"] for x in r.get("all", []) if "heap_in_use" in x]
    v = []
    if len(heaps) != 5:
        v.append(("C15:cycles-crash@%s" % label, "5 create/encode/destroy cycles did not complete: %s" % r.get("stderr", "")[-200:]))
    elif heaps[4] > heaps[1]:
        v.append(("C15:memory-grows@%s" % label, "live heap bytes (exact allocator accounting) after cycles 1..5: %s" % heaps))
    return {"label": label, "viol": v, "status": "ok", "heaps": heaps}


def run(tier):
    ck = vlib.Check(PID, tier, "model_checking")
    enc.tools("asan", sched=True)
    enc.tools("rel")
    schedlib.build_decdrv("asan")
    wd = vlib.workdir("c15")
    items = [(l, a, pol) for (l, a) in enc_cases(tier) for pol in ((0, 1) if tier == "thorough" else (0,))]
    res, complete = vlib.pmap_deadline(case, items, ck.deadline - 90)
    stat, samples = {}, []
    trans = 0
    for it, o in res:
        stat[o["status"]] = stat.get(o["status"], 0) + 1
        trans += o.get("points", 0) or 0
        for key, msg in o["viol"]:
            ck.violation(key, msg, {"kind": "enc", "label": it[0], "args": it[1], "policy": it[2]})
        if len(samples) < 4 and o["status"] == "ok":
            samples.append({"teardown_point": it[0], "args": enc.describe(it[1])})
    # decoder sessions
    pre = os.path.join(wd, "dec")
    enc.session({"w": 128, "h": 64, "n": 4, "hierarchical_levels": 0, "enc_mode": 8, "content": "box"}, out=pre)
    ditems = [("decoder/threads=%d/after-%d-tus" % (t, k), pre, t, k) for t in (1, 3) for k in (0, 1, 2, 4)]
    dres = vlib.pmap(dec_case, ditems)
    for it, o in zip(ditems, dres):
        for key, msg in o["viol"]:
            ck.violation(key, msg, {"kind": "dec", "label": it[0], "threads": it[2], "k": it[3]})
    # repeated cycles
    citems = [("hl3", {"w": 64, "h": 64, "n": 9, "hierarchical_levels": 3, "recon_enabled": 1}), ("hl0-lp4", {"w": 128, "h": 128, "n": 5, "hierarchical_levels": 0, "logical_processors": 4})]
    cres = vlib.pmap(cycles_case, citems)
    for it, o in zip(citems, cres):
        for key, msg in o["viol"]:
            ck.violation(key, msg, {"kind": "cycles", "label": it[0], "args": it[1]})
    cov = {"states": len(res) + len(dres) + len(cres), "transitions": trans or len(res), "traces_validated_against_impl": stat.get("ok", 0) + len(dres) + len(cres),
           "samples": samples or [{"teardown_point": "none completed"}], "exhaustive": bool(complete), "encoder_teardown_points": len(items), "status_counts": stat,
           "decoder_sessions": len(dres), "cycle_sessions": [{"label": it[0], "heap_in_use_after_each_cycle": o.get("heaps")} for it, o in zip(citems, cres)],
           "explanation": "every teardown point of the listed alphabet x configuration is executed on the real library under the controlled scheduler in the "
                          "ASan+LeakSanitizer build; 'transitions' = scheduling decisions of the sessions"}
    return ck.finish(cov, ["canonical schedule (thorough: two priority policies); LeakSanitizer decides 'no library-allocated memory remains'",
                           "mutex / semaphore objects are heap objects in this library (malloc'ed handles), so leaks of them are memory leaks"])


def replay(path):
    d = json.load(open(path))["replay"]
    if d["kind"] == "enc":
        o = case((d["label"], d["args"], d.get("policy", 0)))
    elif d["kind"] == "cycles":
        o = cycles_case((d["label"], d["args"]))
    else:
        wd = vlib.workdir("c15r")
        pre = os.path.join(wd, "dec")
        enc.session({"w": 128, "h": 64, "n": 4, "hierarchical_levels": 0, "enc_mode": 8, "content": "box"}, out=pre)
        o = dec_case((d["label"], pre, d["threads"], d["k"]))
    print(json.dumps(o, indent=1))
    return 1 if o["viol"] else 0
