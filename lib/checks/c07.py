"""C07: every SIMD kernel is a bit-exact drop-in for its C reference (DESIGN.md section 4, C07).

lib/kern_gen.py parses the SET_* entries and the pointer prototypes of the current tree and emits a C table; src/kern_h.c +
src/kern_drv_*.c call the C function and every SIMD variant present in the library build directly, per signature class, over an
exhaustive argument alphabet (block sizes, strides, bit depths, scalar parameter domains, pixel/coefficient pattern alphabet,
complete {min,max}^n cubes for tiny inputs).  Kernels without a driver are listed by name as not covered.
"""
import collections
import json
import os
import queue
import subprocess
import threading
import time

import kern_gen
import vlib

PID = "C07"
GROUPS = [g for g in os.environ.get("C07_GROUPS", "").split(",") if g] or None
SUFFIX = ("_" + "_".join(GROUPS)) if GROUPS else ""
GEN = os.path.join(vlib.BUILD, "work", "c07gen" + SUFFIX, "kern_table.c")


def sources_and_mods():
    mods = kern_gen.rule_modules(GROUPS)
    return ["kern_h.c"] + [s for m in mods for s in m.SOURCES], mods


def build(variant="rel", name=None, extra_sources=(), extra_ldflags="", extra_cflags="", gen=GEN):
    vlib.ensure_build(variant)
    srcs, mods = sources_and_mods()
    info = kern_gen.emit(vlib.REPO, vlib.libs(variant), gen, mods)
    exe = vlib.cc_harness(variant, name or ("kern_h" + SUFFIX), srcs + [gen] + list(extra_sources), enc=True, dec=True, internal=True,
                          extra_cflags="-Wno-deprecated-declarations " + extra_cflags, extra_ldflags=extra_ldflags)
    return exe, info


class Worker:
    def __init__(self, exe, tier, deadline_s):
        self.exe, self.tier, self.deadline_s = exe, tier, deadline_s
        self.p = None

    def start(self):
        env = dict(os.environ)
        env["SVT_LOG"] = "-2"
        self.p = subprocess.Popen([self.exe, "work", "tier=%s" % self.tier, "deadline=%d" % max(1, int(self.deadline_s()))],
                                  stdin=subprocess.PIPE, stdout=subprocess.PIPE, stderr=subprocess.DEVNULL, env=env, text=True, bufsize=1)

    def run(self, ki):
        """-> result dict, or {'crash': ...} when the worker died on this kernel"""
        if self.p is None or self.p.poll() is not None:
            self.start()
        try:
            self.p.stdin.write("%d\n" % ki)
            self.p.stdin.flush()
            line = self.p.stdout.readline()
        except (BrokenPipeError, OSError):
            line = ""
        if not line:
            self.p.wait()
            rc = self.p.returncode
            self.p = None
            return {"crash": rc, "k": ki}
        d = json.loads(line)
        if "crash" in d:
            self.p.wait()
            self.p = None
            d["k"] = ki
        return d

    def close(self):
        if self.p and self.p.poll() is None:
            try:
                self.p.stdin.close()
                self.p.wait(timeout=10)
            except Exception:
                self.p.kill()


DUR = os.path.join(vlib.BUILD, "work", "c07gen", "durations.json")


def load_durations():
    try:
        return json.load(open(DUR))
    except Exception:
        return {}


def cost(k, dur, tier):
    """longest-processing-time-first: measured wall time of the previous run of the tier, else a block-size guess"""
    d = dur.get(tier, {}).get(k["ptr"])
    if d is not None:
        return d
    return max(k["w"], 4) * max(k["h"], 4) * 1e-4


def explore(exe, tier, deadline, kernels):
    """kernels: list of dicts from 'kern_h list' that have a driver. Returns {k index: result}."""
    q = queue.Queue()
    dur = load_durations()
    for k in sorted(kernels, key=lambda k: cost(k, dur, tier), reverse=True):
        q.put(k["k"])
    res = {}
    lock = threading.Lock()

    def left():
        return deadline - time.time()

    def loop():
        wk = Worker(exe, tier, left)
        while True:
            try:
                ki = q.get_nowait()
            except queue.Empty:
                break
            if left() < 2:
                with lock:
                    res[ki] = {"k": ki, "skipped": True}
                continue
            d = wk.run(ki)
            with lock:
                res[ki] = d
        wk.close()

    ts = [threading.Thread(target=loop) for _ in range(vlib.NCPU)]
    for t in ts:
        t.start()
    for t in ts:
        t.join()
    return res


def listing(exe):
    return json.loads(subprocess.run([exe, "list"], stdout=subprocess.PIPE, timeout=60).stdout.decode())


def run(tier, exe=None, info=None):
    ck = vlib.Check(PID, tier, "exploration")
    if exe is None:
        exe, info = build("rel")
    lst = listing(exe)
    kernels = [k for k in lst["kernels"] if k["have_driver"]]
    res = explore(exe, tier, ck.deadline - 30, kernels)
    byidx = {k["k"]: k for k in lst["kernels"]}
    if not GROUPS and exe.endswith("kern_h"):
        dur = load_durations()
        dur.setdefault(tier, {}).update({byidx[ki]["ptr"]: d["wall"] for ki, d in res.items() if "wall" in d and not d.get("timed_out")})
        try:
            json.dump(dur, open(DUR, "w"))
        except OSError:
            pass
    calls = cases = pairs = pairs_nt = 0
    exhaustive = True
    covered, samples, perdrv, sample_src = [], [], collections.OrderedDict(), []
    for ki in sorted(res):
        d, k = res[ki], byidx[ki]
        if d.get("skipped"):
            exhaustive = False
            continue
        if "crash" in d:
            exhaustive = False
            ck.violation("C07:crash@%s" % k["ptr"], "worker died (rc/signal %s) in kernel %s at case %s" % (d.get("crash"), k["ptr"], d.get("case")),
                         {"k": k["ptr"], "v": None, "case": d.get("case", -1), "tier": tier})
            continue
        if d["timed_out"]:
            exhaustive = False
        pd = perdrv.setdefault(d["drv"], {"kernels": 0, "variants_compared": 0, "argument_tuples": 0, "simd_calls_compared": 0})
        pd["kernels"] += 1
        pd["argument_tuples"] += d["c_calls"]
        cases += d["c_calls"]
        ok_variants = []
        for v in d["variants"]:
            if v["skipped"]:
                continue
            calls += v["calls"]
            pd["simd_calls_compared"] += v["calls"]
            if v["calls"]:
                pairs += 1
                pd["variants_compared"] += 1
                ok_variants.append(v["name"])
            if v["nontrivial"]:
                pairs_nt += 1
            if v.get("soft"):
                ck.violation("C07:sign-of-zero@%s_%s" % (k["ptr"], v["isa"]),
                             "%s and %s produce numerically equal floating point outputs that differ in the sign of zero in %d of %d "
                             "compared calls (no value difference in those calls); first (case %d): %s" %
                             (v["name"], d["c"], v["soft"], v["calls"], v["soft_first_case"], v["soft_desc"]),
                             {"k": k["ptr"], "v": v["name"], "case": v["soft_first_case"], "tier": tier})
            if v["mismatches"]:
                # the key fingerprints the set of failing inputs (first failing case of the tier's enumeration and, when the kernel's
                # enumeration ran to the end, how many fail): further failing inputs of a kernel with a known finding are a new violation
                fp = "first=%d" % v["first_case"] + ("" if d.get("timed_out") else ",n=%d" % v["mismatches"])
                ck.violation("C07:mismatch@%s_%s#%s:%s" % (k["ptr"], v["isa"], tier, fp),
                             "%s differs from %s in %d of %d compared calls; first (case %d): %s" %
                             (v["name"], d["c"], v["mismatches"], v["calls"], v["first_case"], v["desc"]),
                             {"k": k["ptr"], "v": v["name"], "case": v["first_case"], "tier": tier})
        covered.append({"kernel": k["ptr"], "driver": d["drv"], "variants": ok_variants, "argument_tuples": d["c_calls"]})
        if d["c_calls"] and perdrv[d["drv"]]["kernels"] == 1:
            sample_src.append((k["ptr"], d["c"], ok_variants, d["cases"]))
    # concrete cases: one argument tuple of the first kernel of each driver, written out by the harness itself
    for ptr, cname, vs, ncases in sample_src[:40]:
        if time.time() > ck.deadline - 5:
            break
        want = min(ncases - 1, (ncases * 5) // 8 + 11)
        try:
            p = subprocess.run([exe, "replay", "k=%s" % ptr, "case=%d" % want, "tier=%s" % tier], stdout=subprocess.PIPE, stderr=subprocess.DEVNULL, timeout=60)
            line = [l for l in p.stdout.decode("latin1").splitlines() if l.startswith("case ")]
        except subprocess.TimeoutExpired:
            line = []
        if line:
            samples.append({"kernel": ptr, "c": cname, "variants": vs, "case": want, "arguments_and_c_result": line[0][:500]})
    if not samples:
        samples = [{"kernel": c["kernel"], "variants": c["variants"], "argument_tuples": c["argument_tuples"]} for c in covered[:5]]
    not_covered = sorted(i["ptr"] for i in info if i["variants"] and not i["driver"])
    c_only = sorted(i["ptr"] for i in info if not i["variants"] and not i["not_in_build"])
    not_in_build = sorted("%s:%s" % (i["ptr"], f) for i in info for _, f in i["not_in_build"])
    cov = {
        "evaluations": calls,
        "distinct_nontrivial": pairs_nt,
        "rule": "evaluations = SIMD kernel calls whose outputs (full poisoned output allocation, return value, out parameters) were compared "
                "with the C reference called on the same argument tuple; argument tuples are enumerated exhaustively per signature-class "
                "driver (block size from the kernel name x stride alphabet {w, w+1, w+16, 2w} x bit depths x every value of small scalar "
                "parameters x the pattern alphabet; complete {min,max}^n cube for inputs of <= 16 samples). distinct_nontrivial = number of "
                "distinct (kernel, SIMD variant) pairs compared on at least one non-constant input",
        "samples": samples,
        "exhaustive": exhaustive,
        "argument_tuples": cases,
        "kernel_variant_pairs_compared": pairs,
        "dispatch_pointers_in_tree": len(info),
        "kernels_covered": len(covered),
        "kernels_with_simd_not_covered": len(not_covered),
        "per_driver": perdrv,
        "driver_alphabets": {k: v for m in kern_gen.rule_modules(GROUPS) for k, v in getattr(m, "DOC", {}).items()},
        "covered": covered,
        "not_covered": not_covered,
        "c_only_pointers": c_only,
        "variants_not_in_library_build": not_in_build,
        "host_isa": lst["isa"],
    }
    return ck.finish(cov, [
        "the C function bound by the dispatch table is the reference",
        "AVX-512 variants are not compiled into the default library build (EN_AVX512_SUPPORT off) and are listed, not run",
        "buffers are 64-byte aligned unless the driver states an offset; inputs carry at least 64 readable bytes before and after",
    ])


def replay(path):
    d = json.load(open(path))["replay"]
    exe, _ = build("rel")
    argv = [exe, "replay", "k=%s" % d["k"], "case=%d" % d["case"], "tier=%s" % d.get("tier", "quick")]
    if d.get("v"):
        argv.append("v=%s" % d["v"])
    p = subprocess.run(argv, stdout=subprocess.PIPE, stderr=subprocess.STDOUT, timeout=600)
    print(p.stdout.decode("latin1")[-6000:])
    return 1 if p.returncode else 0


# --------------------------------------------------------------------------------------------- detection demonstration
MUTANTS = {
    # name: (file relative to /repo, anchor text (mutation applies to the first occurrence of old after it), old, new, extra cflags)
    "dc32x32-rounding": ("Source/Lib/Common/ASM_AVX2/EbIntraPrediction_Intrinsic_AVX2.c", "void svt_aom_dc_predictor_32x32_avx2(",
                         "_mm256_set1_epi16(32)", "_mm256_set1_epi16(31)", "-mavx2"),
    "sad16x8-rows": ("Source/Lib/Encoder/ASM_AVX2/EbComputeSAD_Intrinsic_AVX2.c", "uint32_t svt_aom_sad16x8_avx2(",
                     "ref_stride, 8);", "ref_stride, 4);", "-mavx2"),
    "fwd-txfm-8x8-rounding": ("Source/Lib/Encoder/ASM_AVX2/highbd_fwd_txfm_avx2.c", "static INLINE void col_txfm_8x8_rounding(",
                              "_mm256_set1_epi32(1 << (shift - 1));", "_mm256_set1_epi32((1 << (shift - 1)) - 1);", "-mavx2"),
    "inv-txfm-rounding": ("Source/Lib/Common/ASM_AVX2/highbd_inv_txfm_avx2.c", "static INLINE void round_shift_4x4_avx2(",
                          "_mm256_set1_epi32(1 << (shift - 1));", "_mm256_set1_epi32((1 << (shift - 1)) - 1);", "-mavx2"),
    "lpf-filter4-rounding-lane": ("Source/Lib/Common/ASM_SSE2/EbDeblockingFilter_Intrinsic_SSE2.c", "AOM_FORCE_INLINE void filter4_sse2(",
                                  "_mm_set_epi8(3, 3, 3, 3, 3, 3, 3, 3, 4, 4, 4, 4, 4, 4, 4, 4);", "_mm_set_epi8(3, 3, 3, 3, 3, 3, 3, 3, 4, 4, 4, 4, 4, 4, 4, 3);",
                                  "-msse2"),
    "cdef-constrain-saturate": ("Source/Lib/Common/ASM_AVX2/cdef_block_avx2.c", "",
                                "_mm256_subs_epu16(threshold, l);", "_mm256_sub_epi16(threshold, l);", "-mavx2"),
    "obmc-variance-bias": ("Source/Lib/Encoder/ASM_AVX2/obmc_variance_avx2.c", "static INLINE void obmc_variance_w8n(",
                           "_mm256_set1_epi32((1 << 12) >> 1);", "_mm256_set1_epi32(((1 << 12) >> 1) - 1);", "-mavx2"),
}


def build_mutant(name):
    """Harness with a mutated copy of one kernel source compiled in ahead of the library archive."""
    import shutil
    rel, anchor, old, new, cfl = MUTANTS[name]
    d = os.path.join(vlib.BUILD, "work", "c07_mut_" + name)
    shutil.rmtree(d, ignore_errors=True)
    os.makedirs(d)
    src = open(os.path.join(vlib.REPO, rel)).read()
    a = src.index(anchor) if anchor else 0
    i = src.index(old, a)
    dst = os.path.join(d, os.path.basename(rel))
    open(dst, "w").write(src[:i] + new + src[i + len(old):])
    return build("rel", "kern_h_mut_" + name, extra_sources=[dst], extra_ldflags="-Wl,--allow-multiple-definition",
                 extra_cflags=cfl + " -I" + os.path.dirname(os.path.join(vlib.REPO, rel)))


def demo_mutants(names=None, tier="quick"):
    """python3 -c 'import sys; sys.path[:0]=["lib","lib/checks"]; import c07; c07.demo_mutants()'"""
    out = {}
    for n in names or sorted(MUTANTS):
        exe, info = build_mutant(n)
        evid = os.path.join(vlib.EVID, PID + ".json")
        keep = open(evid).read() if os.path.exists(evid) else None
        rc = run(tier, exe=exe, info=info)
        ev = json.load(open(evid))
        out[n] = {"exit": rc, "keys": ev["distinct_violation_keys"]}
        if keep is not None:
            open(evid, "w").write(keep)
        print("MUTANT %s: exit=%d keys=%s" % (n, rc, ev["distinct_violation_keys"]), flush=True)
    return out
