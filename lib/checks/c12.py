"""C12: svt_av1_enc_set_parameter accepts exactly the documented parameter domain (DESIGN.md section 4, C12).

Reference model: lib/c12_model.py (transcribed from the user guide and the API header, never from verify_settings).
Harness: src/param_set_h.c (fresh handle per case, library defaults + source 64x64 + the deviating elements).
Enumeration: every single-field deviation, every pair (and, for the small groups, triple) inside each documented
coupling group; thorough: additionally all pairs of fields over {min-1, min, max, max+1}.
Oracle: EB_ErrorBadParameter iff the model rejects, EB_ErrorNone iff it accepts.

bin/check C12 --replay <replay file>          re-runs one recorded case
bin/check C12 --replay mutant:<name>|mutant:all   detection demonstration on a mutated copy of EbEncHandle.c
"""
import itertools
import json
import sys

import c12_harness as ch
import c12_model as model
import vlib

PID = "C12"
OK, BAD = "0", "80001005"
SMALL = 600      # documented ranges with at most this many values are enumerated completely (min-2 .. max+2)
CONCRETE = 16    # ranges with at most this many values get one value class per value
PAIRFULL = 40    # inside coupling groups a field contributes all its single values when it has at most this many
CHUNK = 400


# ---------------------------------------------------------------------------------------------- model evaluation

class Space:
    def __init__(self, layout, defaults):
        self.layout = {r["name"]: r for r in layout["rows"]}
        self.defaults = dict(defaults)
        self.defaults["source_width"] = 64
        self.defaults["source_height"] = 64
        self.rows = {r["field"]: r for r in model.ROWS}
        for f in self.rows:
            if f not in self.layout:
                raise vlib.BuildError("model row %s is not a field of EbSvtAv1EncConfiguration" % f)
        doc = set(self.rows) | set(model.UNDOCUMENTED)
        groups = {r["group"] for r in layout["rows"]}
        missing = sorted(groups - doc)
        if missing:
            raise vlib.BuildError("fields neither modelled nor listed as undocumented: %s" % missing)

    def trange(self, field):
        r = self.layout[field]
        bits = 8 * r["size"]
        return (-(1 << (bits - 1)), (1 << (bits - 1)) - 1) if r["sgn"] else (0, (1 << bits) - 1)

    def elements(self, field):
        n = self.layout[field]["inner"]
        return [field] if n == 1 else ["%s.%d" % (field, j) for j in range(n)]

    @staticmethod
    def field_of(elem):
        return elem.split(".")[0]

    def libdefault(self, elem):
        return self.defaults[elem]

    def span(self, row):
        lo = min((row["lo"],) + row["extra"])
        hi = max((row["hi"],) + row["extra"])
        return lo, hi

    def valid(self, elem, v):
        """documented validity of structure value v for element elem: True / False / None (no agreed statement)."""
        row = self.rows[self.field_of(elem)]
        if v == self.libdefault(elem) and row["kind"] != "only":
            return True
        sc = row["scale"]
        if v % sc:
            return None
        d = v // sc
        k = row["kind"]
        if k == "only":
            return row["only"].get(d)
        if d in row["extra"]:
            return True
        if k == "range":
            return row["lo"] <= d <= row["hi"]
        if k == "set":
            return d in row["values"]
        g = row["guide"][0] <= d <= row["guide"][1]
        h = row["header"][0] <= d <= row["header"][1]
        return g if g == h else None

    def vclass(self, elem, v):
        row = self.rows[self.field_of(elem)]
        d = v // row["scale"]
        if row["kind"] == "only":
            return row["classes"].get(d, str(d))
        lo, hi = self.span(row)
        tlo, thi = self.trange(self.field_of(elem))
        hi_eff = min(hi, thi // row["scale"])
        if d < lo:
            return "below-min"
        if d > hi:
            return "library-default" if v == self.libdefault(elem) else "above-max"
        if hi - lo + 1 <= CONCRETE:
            return str(d)
        return {lo: "min", lo + 1: "min+1", hi_eff - 1: "max-1", hi_eff: "max"}.get(d, "in-range")

    def context_label(self, elem, v):
        row = self.rows[self.field_of(elem)]
        lo, hi = self.span(row)
        if row["kind"] == "only" or hi - lo + 1 <= CONCRETE:
            return "%s=%s" % (self.field_of(elem), self.vclass(elem, v))
        return self.field_of(elem)

    def _fit(self, field, docvals):
        row = self.rows[field]
        tlo, thi = self.trange(field)
        out = []
        for d in docvals:
            v = d * row["scale"]
            if tlo <= v <= thi and v not in out:
                out.append(v)
        return out

    def single_values(self, field):
        """structure values enumerated for a single-field deviation (validity None filtered by the caller)."""
        row = self.rows[field]
        tlo, thi = self.trange(field)
        sc = row["scale"]
        if row["kind"] == "only":
            return self._fit(field, sorted(row["only"]))
        lo, hi = self.span(row)
        hi_eff = min(hi, thi // sc)
        lo_eff = max(lo, -((-tlo) // sc))
        if hi - lo + 1 <= SMALL:
            docvals = list(range(lo - 2, hi + 3))
        else:
            mid = (lo_eff + hi_eff) // 2
            docvals = [lo - 1, lo, lo + 1, mid, hi_eff - 1, hi_eff, hi + 1]
        if row["kind"] == "ambiguous":
            for a, b in (row["guide"], row["header"]):
                docvals += [a - 1, a, b, b + 1]
        vals = self._fit(field, docvals + list(row.get("also", ())))
        for t in (tlo, thi):                      # type extremes
            if t % sc == 0 and t not in vals:
                vals.append(t)
        return vals

    def boundary_values(self, field):
        """{min-1, min, max, max+1} (thorough all-pairs alphabet)."""
        row = self.rows[field]
        if row["kind"] == "only":
            return self._fit(field, sorted(row["only"]))
        tlo, thi = self.trange(field)
        lo, hi = self.span(row)
        hi_eff = min(hi, thi // row["scale"])
        docvals = [lo - 1, lo, hi_eff, hi + 1]
        if row["kind"] == "ambiguous":
            for a, b in (row["guide"], row["header"]):
                docvals += [a - 1, a, b, b + 1]
        if row["kind"] == "set":
            docvals += list(row["values"])
        return self._fit(field, docvals + list(row.get("also", ())))

    def group_values(self, field):
        s = self.single_values(field)
        if len(s) <= PAIRFULL:
            return s
        row = self.rows[field]
        tlo, thi = self.trange(field)
        lo, hi = self.span(row)
        hi_eff = min(hi, thi // row["scale"])
        mid = (lo + hi_eff) // 2
        keep = set(self._fit(field, [lo - 1, lo, lo + 1, mid, hi_eff - 1, hi_eff, hi + 1] + list(row["extra"])
                             + list(row.get("also", ()))))
        keep |= {tlo, thi}
        return [v for v in s if v in keep]

    def judge(self, sets):
        """sets: tuple of (element, value).  Returns dict(model='accept'|'reject'|None, invalid=[...], violated=[...])."""
        cfg = dict(self.defaults)
        invalid = []
        for e, v in sets:
            ok = self.valid(e, v)
            if ok is None:
                return {"model": None}
            if not ok:
                invalid.append(e)
            cfg[e] = v
        violated = []
        for cid, _fields, _src, fn in model.CONSTRAINTS:
            r = fn(cfg)
            if r is None:
                return {"model": None}
            if r:
                violated.append(cid)
        return {"model": "reject" if (invalid or violated) else "accept", "invalid": invalid, "violated": violated,
                "cfg": cfg}

    def classes(self, sets):
        return tuple(sorted((self.field_of(e), self.vclass(e, v)) for e, v in sets))


# ---------------------------------------------------------------------------------------------- enumeration

def enumerate_cases(sp, tier):
    """Returns ordered list of cases; a case is a tuple of (element, value) sorted by element."""
    seen = set()
    cases = []
    stats = {"single": 0, "group-pair": 0, "group-triple": 0, "all-pairs": 0, "skipped_ambiguous": 0}

    def add(sets, kind):
        sets = tuple(sorted(sets))
        if sets in seen:
            return
        j = sp.judge(sets)
        if j["model"] is None:
            stats["skipped_ambiguous"] += 1
            seen.add(sets)
            return
        seen.add(sets)
        cases.append(sets)
        stats[kind] += 1

    add((), "single")                                       # the unmodified default configuration
    for f in sorted(sp.rows):
        for e in sp.elements(f):
            for v in sp.single_values(f):
                if v != sp.libdefault(e):
                    add(((e, v),), "single")

    def rep(f):                                             # arrays take part in tuples with their first/last element
        el = sp.elements(f)
        return el if len(el) == 1 else [el[0], el[-1]]

    def nondefault(e, vals):
        return [v for v in vals if v != sp.libdefault(e)]

    for g in model.GROUPS:
        fl = g["fields"]
        for f1, f2 in itertools.combinations(fl, 2):
            for e1 in rep(f1):
                for e2 in rep(f2):
                    for v1 in nondefault(e1, sp.group_values(f1)):
                        for v2 in nondefault(e2, sp.group_values(f2)):
                            add(((e1, v1), (e2, v2)), "group-pair")
        if g["triples"]:
            for f1, f2, f3 in itertools.combinations(fl, 3):
                e1, e2, e3 = rep(f1)[0], rep(f2)[0], rep(f3)[0]
                for v1 in nondefault(e1, _triple_vals(sp, f1)):
                    for v2 in nondefault(e2, _triple_vals(sp, f2)):
                        for v3 in nondefault(e3, _triple_vals(sp, f3)):
                            add(((e1, v1), (e2, v2), (e3, v3)), "group-triple")
    if tier == "thorough":
        inst = []
        for f in sorted(sp.rows):
            for e in rep(f):
                inst.append((e, nondefault(e, sp.boundary_values(f))))
        for (e1, vs1), (e2, vs2) in itertools.combinations(inst, 2):
            if sp.field_of(e1) == sp.field_of(e2):
                continue
            for v1 in vs1:
                for v2 in vs2:
                    add(((e1, v1), (e2, v2)), "all-pairs")
    return cases, stats


def _triple_vals(sp, f):
    """alphabet of a field inside a group triple: its group alphabet when small, else the boundary alphabet
    (which includes the values documented cross constraints refer to, see `also` in c12_model.py)."""
    gv = sp.group_values(f)
    if len(gv) <= 12:
        return gv
    b = set(sp.boundary_values(f))
    return [v for v in gv if v in b]


# ---------------------------------------------------------------------------------------------- execution

_EXE = None


def _chunk(arg):
    exe, base, chunk = arg
    lines = ["%d %s" % (base + i, " ".join("%s=%d" % ev for ev in sets)) for i, sets in enumerate(chunk)]
    res = ch.run_lines(exe, lines, timeout=30)
    return [res.get(str(base + i), ["missing"]) for i in range(len(chunk))]


def execute(exe, cases, deadline):
    chunks = [(exe, b, cases[b:b + CHUNK]) for b in range(0, len(cases), CHUNK)]
    res, complete = vlib.pmap_deadline(_chunk, chunks, deadline)
    out = {}
    for (_, base, chunk), answers in res:
        for i, a in enumerate(answers):
            out[chunk[i]] = a
    return out, complete


def verdict(ans):
    if len(ans) >= 2 and ans[0] == OK and ans[1] == OK:
        return "accept"
    if len(ans) >= 2 and ans[0] == OK and ans[1] == BAD:
        return "reject"
    return "other:" + ":".join(ans)


# ---------------------------------------------------------------------------------------------- oracle

def fmt(sets):
    return " ".join("%s=%d" % ev for ev in sets) or "(defaults)"


def srcs(sp, fields):
    s = []
    for f in fields:
        s += sp.rows[f]["src"]
    return ", ".join(dict.fromkeys(s))


def docdomain(sp, f):
    r = sp.rows[f]
    sc = " (x%d in the structure)" % r["scale"] if r["scale"] != 1 else ""
    ex = "".join(", %d" % x for x in r["extra"] if not r["lo"] <= x <= r["hi"])
    if r["kind"] == "set":
        return "{%s}" % ", ".join(map(str, r["values"]))
    if r["kind"] == "only":
        return "{%s}" % ", ".join(str(k) for k, v in sorted(r["only"].items()) if v)
    if r["kind"] == "ambiguous":
        return "guide [%d - %d] / header [%d - %d]" % (r["guide"] + tuple(r["header"]))
    hi = "2^64-1" if r["hi"] == model.U64 else str(r["hi"])
    return "[%d - %s]%s%s" % (r["lo"], hi, ex, sc)


def evaluate(sp, results):
    """Compares every executed case with the model.  Returns (disagreements {key: info}, counters, distinct set)."""
    dis = {}           # key -> {"what", "n", "example", "dir", "attributed"}
    caseinfo = {}      # sets -> (direction or None)
    counts = {"accept": 0, "reject": 0, "other": 0, "agree": 0, "disagree": 0, "attributed": 0, "other_attributed": 0}
    distinct = set()

    def record(key, what, sets, direction, n=1):
        d = dis.setdefault(key, {"what": what, "n": 0, "example": dict(sets), "dir": direction, "attributed": 0})
        d["n"] += n

    order = sorted(results, key=len)                       # sub-cases first
    for sets in order:
        act = verdict(results[sets])
        j = sp.judge(sets)
        cls = sp.classes(sets)
        distinct.add((cls, act))
        if act.startswith("other"):
            counts["other"] += 1
            kind = "crash" if "crash" in act else ("hang" if "hang" in act else "unexpected-return")
            caseinfo[sets] = kind
            if len(sets) > 1 and any(caseinfo.get(s) == kind for n in range(1, len(sets))
                                     for s in itertools.combinations(sets, n)):
                counts["other_attributed"] += 1
                continue
            key = "%s:%s:%s" % (PID, kind, ",".join("%s=%s" % c for c in cls) or "defaults")
            record(key, "svt_av1_enc_set_parameter %s (%s) for %s" % (kind, act, fmt(sets)), sets, kind)
            caseinfo[sets] = kind
            continue
        counts[act] += 1
        if act == j["model"]:
            counts["agree"] += 1
            caseinfo[sets] = None
            continue
        counts["disagree"] += 1
        direction = "accepts" if act == "accept" else "rejects"
        caseinfo[sets] = direction
        # already present in a smaller case?
        if len(sets) > 1 and _explained(sp, sets, j, direction, caseinfo):
            counts["attributed"] += 1
            continue
        fields_over = [sp.field_of(e) for e, _ in sets]
        if direction == "accepts":
            cfields = set(j["invalid"])
            if not j["invalid"]:
                cfields = set([c[1] for c in model.CONSTRAINTS if c[0] == j["violated"][0]][0])
            # context: the other (documented-valid) deviations of the case; concrete value for small domains only
            ctx = sorted({sp.context_label(e, v) for e, v in sets
                          if e not in cfields and sp.field_of(e) not in cfields})
            ctx = "[%s]" % ",".join(ctx) if ctx else ""
            if j["invalid"]:
                inv = [(sp.field_of(e), sp.vclass(e, v)) for e, v in sets if e in j["invalid"]]
                key = "%s:accepts:%s%s" % (PID, ",".join("%s=%s" % c for c in sorted(set(inv))), ctx)
                rest = tuple((e, v) for e, v in sets if e not in j["invalid"])
                what = "set_parameter accepts %s%s although the documented domain of %s is %s (%s)" % (
                    fmt(tuple((e, v) for e, v in sets if e in j["invalid"])),
                    " (together with %s)" % fmt(rest) if rest else "",
                    "/".join(sorted({c[0] for c in inv})),
                    "; ".join(docdomain(sp, f) for f in sorted({c[0] for c in inv})),
                    srcs(sp, sorted({c[0] for c in inv})))
            else:
                cid = j["violated"][0]
                csrc = [c[2] for c in model.CONSTRAINTS if c[0] == cid][0]
                key = "%s:accepts:%s%s" % (PID, cid, ctx)
                what = "set_parameter accepts %s although the documented constraint '%s' is violated (%s)" % (
                    fmt(sets), cid, ", ".join(csrc))
        else:
            label = None
            for name, gfields, pred in model.GROUP_CLASSES:
                if len(sets) > 1 and set(fields_over) <= gfields and pred(_effective(sp, j["cfg"])):
                    label = name
                    break
            key = "%s:rejects:%s" % (PID, label or ",".join("%s=%s" % c for c in cls))
            what = "set_parameter rejects %s although every value is inside its documented domain (%s; %s)" % (
                fmt(sets), "; ".join("%s %s" % (f, docdomain(sp, f)) for f in sorted(set(fields_over))),
                srcs(sp, sorted(set(fields_over))))
        record(key, what, sets, direction)
    return dis, counts, distinct


def _effective(sp, cfg):
    c = dict(cfg)
    if c["intra_period_length"] == -2:
        c["intra_period_length"] = 31     # any value: only used to label look-ahead disagreements
    return c


def _explained(sp, sets, j, direction, caseinfo):
    subs = []
    for n in range(1, len(sets)):
        subs += [s for s in itertools.combinations(sets, n)]
    if direction == "rejects":
        return any(caseinfo.get(s) == "rejects" for s in subs)
    # accepts: every invalid element must be accepted on its own, and a violated constraint must already be
    # accepted in a smaller case that violates it too
    for e, v in sets:
        if e in j["invalid"] and caseinfo.get(((e, v),)) != "accepts":
            return False
    if j["violated"] and not j["invalid"]:
        for s in subs:
            if caseinfo.get(s) == "accepts" and set(sp.judge(s).get("violated", ())) >= set(j["violated"]):
                return True
        return False
    return True


# ---------------------------------------------------------------------------------------------- entry points

def prepare(exe):
    lay = ch.query(exe, "layout")
    errs = ch.check_layout(lay)
    if errs:
        raise vlib.BuildError("field table of param_fields.h is incomplete: %s" % errs)
    errs = model.verify_sources(vlib.REPO)
    if errs:
        raise vlib.BuildError("c12_model.py no longer matches the documentation: %s" % errs[:5])
    return Space(lay, ch.query(exe, "defaults"))


def explore(exe, tier, deadline):
    sp = prepare(exe)
    cases, stats = enumerate_cases(sp, tier)
    results, complete = execute(exe, cases, deadline)
    dis, counts, distinct = evaluate(sp, results)
    return sp, cases, stats, results, complete, dis, counts, distinct


def run(tier):
    ck = vlib.Check(PID, tier, "exploration")
    exe = ch.build()
    sp, cases, stats, results, complete, dis, counts, distinct = explore(exe, tier, ck.deadline - 30)
    proposals = []
    for key in sorted(dis):
        d = dis[key]
        if key not in ck.known:
            proposals.append({"property": PID, "status": "finding", "key": key, "what": d["what"]})
        ck.violation(key, "%s [%d case(s)]" % (d["what"], d["n"]), {"sets": d["example"], "key": key})
    if proposals:       # ready-to-paste lines for the maintainer of known_findings.jsonl (never read back by the check)
        import os
        wd = os.path.join(vlib.BUILD, "work", "c12")
        os.makedirs(wd, exist_ok=True)
        with open(os.path.join(wd, "proposed_known_findings.jsonl"), "w") as f:
            for p in proposals:
                f.write(json.dumps(p) + "\n")
    for key in sorted(set(ck.known) - set(dis)):
        vlib.log("  note: known finding not observed in this run (tier %s): %s" % (tier, key))
    samples = []
    picked = cases[:1] + cases[1::max(1, len(cases) // 12)][:12] + [tuple(sorted(dis[k]["example"].items()))
                                                                     for k in sorted(dis)[:3]]
    for sets in picked:
        if sets in results:
            samples.append({"sets": fmt(sets), "model": sp.judge(sets)["model"], "return": ":".join(results[sets])})
    amb = sorted(r["field"] for r in model.ROWS if r["kind"] == "ambiguous")
    part = sorted(r["field"] for r in model.ROWS if r["kind"] == "only")
    cov = {
        "evaluations": len(results),
        "distinct_nontrivial": len(distinct),
        "rule": "one svt_av1_enc_set_parameter call on a fresh handle per case (library defaults + source 64x64 + the "
                "deviating elements); cases = every single-field value from documented min-2 to max+2 (ranges <= %d "
                "values, else min-1,min,min+1,mid,max-1,max,max+1) plus the type extremes, all pairs%s inside each "
                "documented coupling group%s; distinct_nontrivial = distinct (field, value class, ..., verdict) "
                "combinations observed" % (SMALL, " and triples", ", all pairs of fields over {min-1,min,max,max+1}"
                                           if tier == "thorough" else ""),
        "samples": samples,
        "exhaustive": bool(complete) and len(results) == len(cases),
        "enumerated": len(cases),
        "enumerated_by_kind": stats,
        "accepted": counts["accept"], "rejected": counts["reject"], "other_outcomes": counts["other"],
        "agree_with_model": counts["agree"], "disagree_with_model": counts["disagree"],
        "disagreements_attributed_to_smaller_case": counts["attributed"],
        "disagreement_keys": {k: dis[k]["n"] for k in sorted(dis)},
        "model_rows": len(model.ROWS), "model_constraints": len(model.CONSTRAINTS),
        "coupling_groups": [g["name"] for g in model.GROUPS],
        "ambiguous_fields": amb,
        "fields_with_statements_about_few_values_only": part,
        "crash_or_hang_cases_attributed_to_smaller_case": counts["other_attributed"],
        "undocumented_fields_not_deviated": sorted(model.UNDOCUMENTED),
    }
    return ck.finish(cov, [
        "the documented domain is the hand transcription in lib/c12_model.py of the user guide's Range/Default columns "
        "and of the header comments (source lines are re-checked against the files on every run)",
        "the value a field has in the configuration returned by svt_av1_enc_init_handle counts as documented-valid",
        "where guide and header contradict each other only values on which both agree are judged; fields without a "
        "documented range are never deviated",
        "all cases use source 64x64 and otherwise the library defaults as the base configuration"])


def _single(exe, sets):
    sp = prepare(exe)
    sets = tuple(sorted((e, int(v)) for e, v in sets.items()))
    res, _ = execute(exe, [sets], 1e18)
    j = sp.judge(sets)
    act = verdict(res[sets])
    print(json.dumps({"sets": fmt(sets), "model": j["model"], "invalid": j.get("invalid"),
                      "violated": j.get("violated"), "actual": act, "return": res[sets]}, indent=1))
    return 0 if act == j["model"] else 1


def mutant_demo(names):
    """Runs the quick enumeration on the unchanged harness and on each mutant; prints the keys only the mutant has."""
    import time
    base_exe = ch.build()
    _, _, _, _, _, dis0, counts0, _ = explore(base_exe, "quick", time.time() + 600)
    print("baseline: %d cases disagree, %d keys" % (counts0["disagree"], len(dis0)))
    rc = 0
    for m in names:
        exe = ch.build_mutant(m)
        _, _, _, _, _, dis, counts, _ = explore(exe, "quick", time.time() + 600)
        new = sorted(set(dis) - set(dis0))
        gone = sorted(set(dis0) - set(dis))
        print("mutant %s (%s): %d cases disagree, %d keys; NEW keys: %d" % (m, ch.MUTANTS[m][2], counts["disagree"],
                                                                             len(dis), len(new)))
        for k in new:
            print("  VIOLATION-WOULD-BE %s  %s [%d case(s)]" % (k, dis[k]["what"], dis[k]["n"]))
        for k in gone:
            print("  (key no longer observed: %s)" % k)
        if not new:
            rc = 1
    return rc


def replay(path):
    if path.startswith("mutant:"):
        names = path.split(":", 1)[1].split(",")
        if names == ["all"]:
            names = [m for m in ch.MUTANTS if m not in ("c13fix", "noqpinit")]
        return mutant_demo(names)
    d = json.load(open(path))
    return _single(ch.build(), d["replay"]["sets"])


if __name__ == "__main__":
    sys.exit(run(sys.argv[1] if len(sys.argv) > 1 else "quick"))
