"""C14: API calls in any order return error codes instead of crashing or blocking (DESIGN.md 4/C14).

Explicit-state breadth-first search over call histories; the transition function is the real API (each history is replayed in a
fresh ASan process).  NULL-argument calls are explored in every protocol state and must return an error code and leave the
session usable (the rest of the session is then completed and must succeed)."""
import json
import os
import subprocess
import time

import enc
import vlib

PID = "C14"
ERR_NONE = 0

NULL_ANY = ["IH_NULLP", "SP_NULLH", "IN_NULL", "SH_NULLH", "SHR_NULL", "EOSNAL_NULLH", "SEND_NULLH", "GP_NULLH",
            "REL_NULL", "REL_PNULL", "GR_NULLH", "GSI_NULLH", "DEINIT_NULL", "DH_NULL"]
DNULL_ANY = ["DIH_NULLP", "DSP_NULLH", "DIN_NULL", "DF_NULLH", "DGP_NULLH", "DDE_NULL", "DDH_NULL"]
VOID_OPS = {"REL_NULL", "REL_PNULL"}


class EncState:
    """abstract protocol state of one encoder session"""

    def __init__(self, h="none", sent=0, eos=0, got=0, hdr=0):
        self.h, self.sent, self.eos, self.got, self.hdr = h, sent, eos, got, hdr

    def key(self):
        return ("enc", self.h, self.sent, self.eos, self.got, self.hdr)

    def enabled(self):
        ops = [(o, "null") for o in NULL_ANY]
        h = self.h
        if h == "none":
            ops += [("IH", "valid"), ("IH_NULLC", "null")]
        if h in ("created", "rejected", "configured"):
            ops += [("SP", "valid"), ("SP_BAD1", "reject"), ("SP_BAD2", "reject"), ("SP_BAD3", "reject"), ("SP_NULLC", "null")]
        if h in ("created", "rejected"):
            ops.append(("DEINIT", "valid"))
        if h == "configured":
            ops += [("IN", "valid"), ("DEINIT", "valid")]
        if h == "inited":
            ops += [("SH_NULLO", "null"), ("SEND_NULLB", "null"), ("GP_NULLO", "null"), ("GR_NULLB", "null"), ("GSI_BADID", "null"),
                    ("GSI_NULLINFO", "null"), ("GP_NB", "poll"), ("GR", "poll"), ("GSI", "valid"), ("DEINIT", "valid")]
            if not self.hdr:
                ops.append(("SH", "valid"))
            if not self.eos and self.sent < 2:
                ops.append(("SEND", "valid"))
            if not self.eos:
                ops.append(("EOS", "valid"))
            if self.eos and self.got < self.sent:
                ops.append(("GP_B", "valid"))
        if h == "deinited":
            ops.append(("DH", "valid"))
        return ops

    def apply(self, op):
        s = EncState(self.h, self.sent, self.eos, self.got, self.hdr)
        if op == "IH":
            s.h = "created"
        elif op == "SP":
            s.h = "configured"
        elif op.startswith("SP_BAD"):
            s.h = "rejected"
        elif op == "IN":
            s.h = "inited"
        elif op == "SH":
            s.hdr = 1
        elif op == "SEND":
            s.sent += 1
        elif op == "EOS":
            s.eos = 1
        elif op == "GP_B" or (op == "GP_NB" and s.eos and s.got < s.sent):
            s.got += 1
        elif op == "DEINIT":
            s.h = "deinited"
        elif op == "DH":
            s.h = "destroyed"
        return s

    def completion(self):
        """ops that finish the session normally from this state"""
        ops = []
        s = self
        if s.h in ("none", "destroyed"):
            return []
        if s.h in ("created", "rejected"):
            ops += ["SP", "IN"]
        elif s.h == "configured":
            ops += ["IN"]
        if s.h in ("created", "rejected", "configured", "inited"):
            sent, eos, got = (s.sent, s.eos, s.got) if s.h == "inited" else (0, 0, 0)
            if not eos:
                if sent == 0:
                    ops.append("SEND")
                    sent = 1
                ops.append("EOS")
            ops.append("DRAIN")
            ops.append("DEINIT")
        ops.append("DH")
        return ops


class DecState:
    def __init__(self, h="none", fed=0):
        self.h, self.fed = h, fed

    def key(self):
        return ("dec", self.h, self.fed)

    def enabled(self):
        ops = [(o, "null") for o in DNULL_ANY]
        h = self.h
        if h == "none":
            ops += [("DIH", "valid"), ("DIH_NULLC", "null")]
        if h in ("created", "configured"):
            ops += [("DSP", "valid"), ("DSP_NULLC", "null")]
        if h == "created":
            ops.append(("DDE", "valid"))
        if h == "configured":
            ops += [("DIN", "valid"), ("DDE", "valid")]
        if h == "inited":
            ops += [("DF_NULLD", "null"), ("DGP_NULLB", "null"), ("DDE", "valid")]
            if self.fed < 2:
                ops.append(("DF", "valid"))
            if self.fed:
                ops.append(("DGP", "valid"))
        if h == "deinited":
            ops.append(("DDH", "valid"))
        return ops

    def apply(self, op):
        s = DecState(self.h, self.fed)
        if op == "DIH":
            s.h = "created"
        elif op == "DSP":
            s.h = "configured"
        elif op == "DIN":
            s.h = "inited"
        elif op == "DF":
            s.fed += 1
        elif op == "DDE":
            s.h = "deinited"
        elif op == "DDH":
            s.h = "destroyed"
        return s

    def completion(self):
        if self.h in ("none", "destroyed"):
            return []
        ops = []
        if self.h == "created":
            ops += ["DSP", "DIN"]
        elif self.h == "configured":
            ops += ["DIN"]
        if self.h in ("created", "configured", "inited"):
            ops += ["DF", "DGP", "DDE"]
        ops.append("DDH")
        return ops


_exe = None
_tu = None


def execute(ops, watchdog=20):
    en = dict(os.environ)
    en.update({"SVT_LOG": "-2", "ASAN_OPTIONS": "detect_leaks=0:halt_on_error=1:exitcode=77", "UBSAN_OPTIONS": "halt_on_error=0", "API_TU": _tu,
               "API_WATCHDOG_S": str(watchdog)})
    try:
        p = subprocess.run([_exe] + ops, stdout=subprocess.PIPE, stderr=subprocess.PIPE, env=en, timeout=6 * watchdog)
    except subprocess.TimeoutExpired:
        return {"timeout": True, "lines": [], "stderr": ""}
    lines = [l.split() for l in p.stdout.decode("latin1").strip().split("\n") if l.strip()]
    return {"timeout": False, "rc": p.returncode, "lines": lines, "stderr": p.stderr[-20000:].decode("latin1")}


def job(item):
    hist, op, kind, comp = item
    return execute(hist + [op] + comp)


def blocked(r):
    return bool(r.get("timeout") or any(l and l[0] == "WATCHDOG" for l in r["lines"]))


_confirmed = {}


def confirm_blocked(ops, stats, cls):
    """A wall-clock watchdog fired while 16 sessions ran side by side: re-run the history alone with a long limit before calling it blocked.
    At most one confirmation per class of history (cls) and four per run (each may take 90 s); a watchdog hit that is not confirmed is
    not reported (counted as watchdog_unconfirmed, the run is then not exhaustive)."""
    if _confirmed.get(cls) or sum(_confirmed.values()) + stats.get("watchdog_refuted", 0) >= 4:
        if _confirmed.get(cls):
            return None          # same class as a confirmed one: reported under the same finding
        stats["watchdog_unconfirmed"] = stats.get("watchdog_unconfirmed", 0) + 1
        return {"timeout": False, "rc": 0, "lines": [], "stderr": "", "unconfirmed": True}
    r = execute(ops, watchdog=90)
    stats["watchdog_reruns"] = stats.get("watchdog_reruns", 0) + 1
    if blocked(r):
        _confirmed[cls] = 1
    else:
        stats["watchdog_refuted"] = stats.get("watchdog_refuted", 0) + 1
    return r


def analyse(ck, hist, op, kind, comp, r, stats):
    """returns True if the transition behaved"""
    if blocked(r):
        r = confirm_blocked(hist + [op] + comp, stats, op) or r
        if r.get("unconfirmed"):
            return False
    where = "after [%s]" % " ".join(hist)
    rep = {"history": hist, "op": op, "completion": comp}
    res = {}
    for l in r["lines"]:
        if l[0] in ("WATCHDOG", "SIGNAL"):
            res["bad"] = l
        elif l[0] not in ("PACKET", "END"):
            res.setdefault("seq", []).append((l[0], int(l[1])))
    seq = res.get("seq", [])
    nh = len(hist)
    site = enc.sanitizer_site(r.get("stderr", ""))
    if r.get("timeout") or "bad" in res or r.get("rc") not in (0,):
        bad = res.get("bad", ["?", "?", "?"])
        failing = bad[-1] if "bad" in res else (seq[-1][0] if seq else "?")
        done = len(seq)
        what = "blocks" if (r.get("timeout") or bad[0] == "WATCHDOG") else ("crashes (signal %s)" % bad[1] if bad[0] == "SIGNAL" else "sanitizer report %s" % (site,))
        if done < nh:
            return False  # the history itself failed: reported where it was first extended
        if done == nh:
            ck.violation("C14:%s:%s" % ("blocks" if "blocks" in what else "crash", op), "%s %s %s" % (op, what, where), rep)
        else:
            ck.violation("C14:session-unusable-after:%s" % op, "after %s the rest of the session fails: %s %s (%s)" % (op, failing, what, where), rep)
        return False
    if len(seq) < nh + 1:
        return False
    rc = seq[nh][1]
    if kind == "null":
        if op not in VOID_OPS and rc == ERR_NONE:
            ck.violation("C14:no-error-code:%s" % op, "%s returns EB_ErrorNone %s" % (op, where), rep)
    elif kind == "reject":
        if (rc & 0xffffffff) != 0x80001005:
            ck.violation("C14:reject-code:%s" % op, "%s returns %#x, expected EB_ErrorBadParameter %s" % (op, rc & 0xffffffff, where), rep)
    elif kind == "valid":
        if rc != ERR_NONE:
            ck.violation("C14:valid-call-fails:%s" % op, "%s returns %#x %s" % (op, rc & 0xffffffff, where), rep)
            return False
    # the completion must succeed
    for name, c in seq[nh + 1:]:
        if c != ERR_NONE and name not in ("GP_NB", "GR"):
            ck.violation("C14:session-unusable-after:%s" % op, "after %s, %s returns %#x (%s)" % (op, name, c & 0xffffffff, where), rep)
            return False
    stats["ok"] = stats.get("ok", 0) + 1
    return True


def bfs(ck, init, max_depth, stats):
    seen = {init.key(): []}
    frontier = [(init, [])]
    transitions = 0
    depth = 0
    samples = []
    complete = True
    while frontier and depth < max_depth:
        jobs, meta = [], []
        for st, hist in frontier:
            for op, kind in st.enabled():
                nxt = st.apply(op)
                jobs.append((hist, op, kind, nxt.completion()))
                meta.append((st, nxt))
        res, done = vlib.pmap_deadline(job, jobs, ck.deadline - 25)
        if not done:
            complete = False
        by = {(tuple(j[0]), j[1]): r for j, r in res}
        nf = []
        for (hist, op, kind, comp), (st, nxt) in zip(jobs, meta):
            r = by.get((tuple(hist), op))
            if r is None:
                continue
            transitions += 1
            ok = analyse(ck, hist, op, kind, comp, r, stats)
            if len(samples) < 5 and kind != "null" and depth >= 2:
                samples.append(" ".join(hist + [op]))
            if ok and nxt.key() not in seen and nxt.h != "destroyed":
                seen[nxt.key()] = hist + [op]
                nf.append((nxt, hist + [op]))
        frontier = nf
        depth += 1
    return len(seen), transitions, depth, samples, complete and not frontier


PROBE_VALUES = (1000, -2, 3, 2147483647, -1, 9, 64)
PROBE_SKIP = ("rc_twopass_stats_in", "rc_firstpass_stats_out", "pred_struct", "channel_id", "active_channel_count")


def spx(elem, v):
    """SPX operand: single deviation elem=v, or a grouped deviation (elem holds the assignments, v is ignored)"""
    return "SPX:%s" % elem if "=" in elem else "SPX:%s=%d" % (elem, v)


def probe_job(item):
    elem, v = item
    return execute(["IH", spx(elem, v), "SP", "DEINIT", "DH"])


def chain_job(chain):
    ops = ["IH"]
    for elem, v in chain:
        ops += [spx(elem, v), "SP"]
    return execute(ops + ["DEINIT", "DH"], watchdog=40)


def full_job(item):
    elem, v = item
    return execute(["IH", spx(elem, v), "SP", "IN", "SEND", "EOS", "DRAIN", "DEINIT", "DH"])


# count fields that drive copies of neighbouring arrays: the count together with its enabling switch
GROUPS = ["enable_manual_pred_struct=1,manual_pred_struct_entry_num=%d" % v for v in (-1, 0, 1, 2, 3, 4, 8, 31, 32, 33, 1000)] + \
         ["enable_hme_flag=1,use_default_me_hme=0,number_hme_search_region_in_width=%d,number_hme_search_region_in_height=%d" % (a, b)
          for a in (0, 1, 2, 3, 1000) for b in (0, 1, 2, 3, 1000)]


def reject_sweep(ck, tier, stats):
    """every configuration element x a fixed value menu: whenever svt_av1_enc_set_parameter rejects the configuration, the same handle must
    accept a valid configuration afterwards (cheap probe for every rejected (element, value)) and run a whole session (one value per element)"""
    elems = [e for e in element_names() if not e.startswith(PROBE_SKIP)]
    items = [(g, 0) for g in GROUPS] + [(e, v) for v in PROBE_VALUES for e in elems]   # value-major: every element is probed before the second value starts
    # first pass: chains of 8 probes on one handle (IH, [SPX_i, SP]*8, DEINIT, DH): init_handle dominates the cost of a probe.  A chain
    # in which everything returns and every valid SP succeeds settles its 8 members; members of any other chain are probed one by one
    t_end = time.time() + 0.25 * ck.budget
    chains = [items[i:i + 8] for i in range(0, len(items), 8)]
    cres, cdone = vlib.pmap_deadline(chain_job, chains, t_end)
    settled, single = [], []
    for chain, r in cres:
        seq = [(l[0], int(l[1])) for l in r["lines"] if l and l[0] not in ("PACKET", "END", "WATCHDOG", "SIGNAL") and len(l) > 1]
        good = (not blocked(r) and r.get("rc") == 0 and len(seq) == 3 + 2 * len(chain) and
                all(seq[2 + 2 * i][1] == ERR_NONE for i in range(len(chain))) and seq[-1][1] == ERR_NONE and seq[-2][1] == ERR_NONE)
        if good:
            for i, it in enumerate(chain):
                settled.append((it, seq[1 + 2 * i][1]))
        else:
            single += chain
    done_chains = set(id(c) for c, _ in cres)
    single += [it for c in chains if id(c) not in done_chains for it in c]
    res, done = vlib.pmap_deadline(probe_job, single, max(t_end, time.time() + 0.1 * ck.budget))
    rejected, per_elem = 0, {}
    for (e, v), rc in settled:
        if rc != ERR_NONE:
            rejected += 1
            per_elem.setdefault(e, v)
    stats["probes_settled_in_chains"] = len(settled)
    for (e, v), r in res:
        hist, op, comp = ["IH"], spx(e, v), ["SP", "DEINIT", "DH"]
        if blocked(r):
            r = confirm_blocked(hist + [op] + comp, stats, "SPX:" + e.split("=")[0].split(".")[0]) or r
            if r.get("unconfirmed"):
                continue
        seq = [(l[0], int(l[1])) for l in r["lines"] if l and l[0] not in ("PACKET", "END", "WATCHDOG", "SIGNAL") and len(l) > 1]
        rc = seq[1][1] if len(seq) > 1 else None
        is_rej = rc is not None and rc != ERR_NONE
        if is_rej:
            rejected += 1
            per_elem.setdefault(e, v)
        if not is_rej and not (blocked(r) or r.get("rc") != 0):
            continue
        judge_after_reject(ck, e, hist, op, comp, r, seq, rc)
    full = sorted(per_elem.items())
    if tier == "quick":   # groups first, then every 5th element
        full = [x for x in full if "=" in x[0]] + [x for x in full if "=" not in x[0]][::5]
    res2, done2 = vlib.pmap_deadline(full_job, full, time.time() + 0.15 * ck.budget)
    for (e, v), r in res2:
        hist, op, comp = ["IH"], spx(e, v), ["SP", "IN", "SEND", "EOS", "DRAIN", "DEINIT", "DH"]
        if blocked(r):
            r = confirm_blocked(hist + [op] + comp, stats, "SPX:" + e.split("=")[0].split(".")[0]) or r
            if r.get("unconfirmed"):
                continue
        seq = [(l[0], int(l[1])) for l in r["lines"] if l and l[0] not in ("PACKET", "END", "WATCHDOG", "SIGNAL") and len(l) > 1]
        judge_after_reject(ck, e, hist, op, comp, r, seq, seq[1][1] if len(seq) > 1 else None)
    return {"probed": len(res) + len(settled), "probed_in_chains_of_8": len(settled), "probed_one_by_one": len(res), "enumerated": len(items), "rejected": rejected, "elements": len(elems), "elements_with_rejection": len(per_elem),
            "full_sessions_after_rejection": len(res2), "complete": bool(done and done2)}


def judge_after_reject(ck, e, hist, op, comp, r, seq, rc):
    rep = {"history": hist, "op": op, "completion": comp}
    field = ",".join(sorted(set(t.split("=")[0].split(".")[0] for t in e.split(","))))
    ops = hist + [op] + comp
    if blocked(r) or r.get("rc") != 0:
        bad = [l for l in r["lines"] if l and l[0] in ("WATCHDOG", "SIGNAL")]
        failing = ops[len(seq)] if len(seq) < len(ops) else "exit"   # the call after the last one that returned
        site = enc.sanitizer_site(r.get("stderr", ""))
        what = "blocks" if blocked(r) else ("crashes (signal %s)" % bad[0][1] if bad else "sanitizer report %s" % (site,))
        if failing.startswith("SPX:"):
            ck.violation("C14:%s:SPX:%s" % ("blocks" if blocked(r) else "crash", field), "svt_av1_enc_set_parameter with %s %s" % (op[4:], what), rep)
        else:
            ck.violation("C14:session-unusable-after-rejection:%s" % field, "after %s (returned %s) %s %s" % (op, "%#x" % (rc & 0xffffffff) if rc is not None else "?", failing, what), rep)
        return
    for name, c in seq[2:]:
        if c != ERR_NONE:
            ck.violation("C14:session-unusable-after-rejection:%s" % field, "after %s (returned %#x), %s returns %#x" % (op, rc & 0xffffffff, name, c & 0xffffffff), rep)
            return


def element_names():
    out = subprocess.run([_exe, "LAYOUT"], stdout=subprocess.PIPE, env=dict(os.environ, SVT_LOG="-2")).stdout.decode()
    return [l.strip() for l in out.split("\n") if l.strip() and not l.startswith(("END", "LAYOUT"))]


def run(tier):
    global _exe, _tu
    ck = vlib.Check(PID, tier, "model_checking")
    _exe = vlib.cc_harness("asan", "api_h", ["api_h.c"], enc=True, dec=True, deps=["param_fields.h"])
    wd = vlib.workdir("c14")
    pre = os.path.join(wd, "tu")
    enc.session({"w": 64, "h": 64, "n": 1}, out=pre)
    _tu = pre + ".obu"
    stats = {}
    depth = 12 if tier == "quick" else 16
    rs = reject_sweep(ck, tier, stats)
    # releasing a packet a second time (after the pipeline has gone idle) is documented nowhere as forbidden and is a no-op in this library:
    # svt_av1_enc_release_out_buffer clears the packet's payload pointer and svt_release_object ignores a released wrapper
    for hist in (["IH", "SP", "IN", "SEND", "EOS"], ["IH", "SP", "IN", "SEND", "SEND", "EOS"]):
        r = execute(hist + ["DRAIN_HOLD_REL2", "DEINIT", "DH"], watchdog=60)
        seq = [(l[0], int(l[1])) for l in r["lines"] if l and l[0] not in ("PACKET", "END", "WATCHDOG", "SIGNAL") and len(l) > 1]
        stats["double_release_histories"] = stats.get("double_release_histories", 0) + 1
        if blocked(r):
            r2 = confirm_blocked(hist + ["DRAIN_HOLD_REL2", "DEINIT", "DH"], stats, "DRAIN_HOLD_REL2") or r
            if r2.get("unconfirmed") or not blocked(r2):
                continue
            ck.violation("C14:blocks:release-twice", "releasing every packet twice after [%s] blocks" % " ".join(hist), {"history": hist, "op": "DRAIN_HOLD_REL2", "completion": ["DEINIT", "DH"]})
        elif r.get("rc") != 0 or any(c != ERR_NONE for _, c in seq):
            site = enc.sanitizer_site(r.get("stderr", ""))
            ck.violation("C14:crash:release-twice", "releasing every packet twice after [%s]: %s" % (" ".join(hist), site or ("status %s, calls %s" % (r.get("rc"), seq[-3:]))),
                         {"history": hist, "op": "DRAIN_HOLD_REL2", "completion": ["DEINIT", "DH"]})
    s2, t2, d2, sm2, c2 = bfs(ck, DecState(), depth, stats)
    s1, t1, d1, sm1, c1 = bfs(ck, EncState(), depth, stats)
    cov = {"states": s1 + s2, "transitions": t1 + t2, "traces_validated_against_impl": t1 + t2, "samples": (sm1 + sm2) or ["IH SP IN"],
           "exhaustive": bool(c1 and c2 and rs["complete"] and not stats.get("watchdog_unconfirmed")), "watchdog_unconfirmed": stats.get("watchdog_unconfirmed", 0), "reject_sweep": rs, "watchdog_reruns": stats.get("watchdog_reruns", 0), "encoder_states": s1, "decoder_states": s2, "max_depth": max(d1, d2), "well_behaved_transitions": stats.get("ok", 0),
           "explanation": "BFS over API call histories; canonical state = (handle phase, pictures sent <= 2, EOS sent, packets retrieved, header fetched) for the "
                          "encoder and (handle phase, temporal units fed <= 2) for the decoder; every transition replays its history in a fresh ASan process and "
                          "then completes the session normally; reject sweep: every configuration element x %s, each rejected configuration followed by a valid "
                          "set_parameter on the same handle (and, one value per element, a whole session)" % (PROBE_VALUES,)}
    return ck.finish(cov, ["out-of-order calls with valid pointers are not demanded by the property and not explored",
                           "blocking svt_av1_enc_get_packet is only issued when a packet is owed", "encoder and decoder sessions explored separately (C17 covers concurrency)"])


def replay(path):
    global _exe, _tu
    d = json.load(open(path))["replay"]
    _exe = vlib.cc_harness("asan", "api_h", ["api_h.c"], enc=True, dec=True, deps=["param_fields.h"])
    wd = vlib.workdir("c14r")
    pre = os.path.join(wd, "tu")
    enc.session({"w": 64, "h": 64, "n": 1}, out=pre)
    _tu = pre + ".obu"
    r = execute(d["history"] + [d["op"]] + d["completion"], watchdog=150)
    print(r)
    lines = r["lines"]
    return 1 if (blocked(r) or r.get("rc") != 0 or any(len(l) > 1 and l[0] not in ("PACKET", "GP_NB", "GR") and not l[0].endswith(("_NULL", "_NULLH", "_NULLC", "_NULLP", "_NULLO", "_NULLB", "_NULLD", "_BADID", "_NULLINFO")) and not l[0].startswith(("SP_BAD", "SPX:")) and l[1] != "0" for l in lines)) else 0
