"""C09: multi-threaded decoding is memory-safe and gives the single-thread result (DESIGN.md 4/C09).

The decoder runs under the controlled scheduler (hook H1 makes its busy-wait loops and progress-flag stores scheduling
points); every schedule with <= d delays is executed for threads in {2,3,4}; every schedule with one stall point (the thread running at decision point p is arbitrarily slow from p
on) is executed as well; canonical and mirrored schedules for 1..16 threads additionally run in the ASan+UBSan build."""
import json
import os
import time

import enc
import schedlib
import vlib

PID = "C09"

STREAMS = {
    "192x128-key+2inter": {"w": 192, "h": 128, "n": 3, "hierarchical_levels": 0, "enc_mode": 4, "enable_restoration_filtering": 0},
    "256x128-2tiles": {"w": 256, "h": 128, "n": 3, "hierarchical_levels": 0, "enc_mode": 4, "tile_columns": 1, "enable_restoration_filtering": 0},
    "256x128-4tiles": {"w": 256, "h": 128, "n": 3, "hierarchical_levels": 0, "enc_mode": 6, "tile_columns": 1, "tile_rows": 1, "enable_restoration_filtering": 0},
    "192x128-superres": {"w": 192, "h": 128, "n": 3, "hierarchical_levels": 0, "enc_mode": 6, "superres_mode": 1, "superres_denom": 12, "superres_kf_denom": 12,
                         "enable_restoration_filtering": 0},
    "256x256-sb128": {"w": 256, "h": 256, "n": 2, "hierarchical_levels": 0, "enc_mode": 6, "super_block_size": 128, "enable_restoration_filtering": 0},
    "192x128-10bit": {"w": 192, "h": 128, "n": 3, "hierarchical_levels": 0, "enc_mode": 6, "encoder_bit_depth": 10, "enable_restoration_filtering": 0},
    "144x112-hl3-9frames": {"w": 144, "h": 112, "n": 9, "hierarchical_levels": 3, "enc_mode": 8},
    "256x128-2tilerows": {"w": 256, "h": 128, "n": 3, "hierarchical_levels": 0, "enc_mode": 8, "tile_rows": 1},
    "192x128-restoration-on": {"w": 192, "h": 128, "n": 2, "hierarchical_levels": 0, "enc_mode": 4, "enable_restoration_filtering": 1},
}


def lr_on(name):
    a = STREAMS[name]
    return int(a.get("enable_restoration_filtering", -1)) == 1 or (int(a.get("enable_restoration_filtering", -1)) == -1 and int(a.get("enc_mode", 8)) <= 6)


def differs_key(name, t):
    if lr_on(name):
        return "C09:output-differs@loop-restoration-enabled"
    return "C09:output-differs@%s,threads=%d" % (name, t)


def make_streams(wd, names):
    out = {}
    for name in names:
        pre = os.path.join(wd, name)
        r = enc.session(dict(STREAMS[name], content="box"), out=pre, timeout=300)
        if r.get("parsed") and r.get("completed") == 1:
            out[name] = pre
    return out


def obs(res):
    o = res.get("out") or {}
    return (o.get("npic"), o.get("all_hash"), o.get("nerr"), o.get("deinit"), o.get("deinit_handle"))


def run(tier):
    ck = vlib.Check(PID, tier, "model_checking")
    exe = schedlib.build_decdrv("rel")
    exe_asan = schedlib.build_decdrv("asan")
    wd = vlib.workdir("c09")
    names = list(STREAMS) if tier == "thorough" else ["192x128-key+2inter", "256x128-2tiles", "256x128-2tilerows", "144x112-hl3-9frames", "192x128-restoration-on"]
    streams_ = make_streams(wd, names)
    per, samples = [], []
    tot_exec = tot_trans = traces = stall_total = 0
    exhaustive = True
    # reference: single-threaded decode (free of scheduling choices)
    refs = {}
    for name, pre in streams_.items():
        r = schedlib.run_schedule(exe, [pre, "threads=1"], [], timeout=120)
        refs[name] = obs(r)
        if r["rc"] != 0 or not refs[name][0]:
            ck.violation("C09:single-thread-decode-fails@" + name, "status %s %s" % (r["rc"], refs[name]), {"stream": name, "args": STREAMS[name], "threads": 1, "delays": ""})
    plan = []
    for name in streams_:
        for t in (2, 3, 4):
            bound = 0 if lr_on(name) else 1
            if lr_on(name) and t != 2:
                continue
            if tier == "quick" and t == 4:
                bound = 0
            if tier == "thorough" and t == 2 and name == "192x128-key+2inter":
                bound = 2
            plan.append((name, t, bound))
    for i, (name, t, bound) in enumerate(plan):
        left = ck.time_left() - 0.35 * ck.budget
        if left < 10:
            exhaustive = False
            break
        share = min(left, 2.0 * left / (len(plan) - i))
        E = schedlib.Exploration(exe, [streams_[name], "threads=%d" % t], timeout=120)
        outcomes = {}

        def on(res, name=name, t=t):
            devs = schedlib.delays_str(res["devs"])
            rep = {"stream": name, "args": STREAMS[name], "threads": t, "delays": devs, "stalls": res.get("stalls") or [], "policy": res.get("policy", 0)}
            if res.get("stalls"):
                devs = "stall at %s" % res["stalls"]
            out = res.get("out") or {}
            if res["rc"] == 6:
                return
            if res["timeout"]:
                # under the scheduler a genuine hang is a detected deadlock / livelock; a wall-clock timeout first gets a second run alone with a long limit
                res = schedlib.run_schedule(exe, [streams_[name], "threads=%d" % t], res["devs"], None, 900, policy=res.get("policy", 0), stalls=res.get("stalls") or ())
                out = res.get("out") or {}
            if res["timeout"]:
                ck.violation("C09:timeout@%s,threads=%d" % (name, t), "schedule [%s] exceeded 120 s and, run alone, 900 s" % devs, rep)
            elif res["rc"] == 3 or out.get("deadlock") or out.get("livelock"):
                kind = "livelock" if out.get("livelock") else "deadlock"
                ck.violation("C09:%s@%s,threads=%d" % (kind, name, t), "schedule [%s]: %s" % (devs, json.dumps(out)[:300]), rep)
            elif res["rc"] != 0 or not out:
                ck.violation("C09:crash@%s,threads=%d" % (name, t), "schedule [%s] ends with status %s %s" % (devs, res["rc"], res["stderr"][-200:]), rep)
            else:
                ob = obs(res)
                outcomes[ob] = outcomes.get(ob, 0) + 1
                if ob != refs[name]:
                    ck.violation(differs_key(name, t), "schedule [%s] yields %s, single-thread decode yields %s" % (devs, ob, refs[name]), rep)

        E.run(bound, on, time.time() + share)
        if E.divergences:
            raise RuntimeError("DIVERGENCE while replaying schedule prefixes %s (%s threads=%d)" % (E.divergences[:3], name, t))
        tot_exec += E.executions
        tot_trans += E.transitions
        traces += len(E.trace_hashes)
        if E.capped:
            exhaustive = False
        per.append({"stream": name, "threads": t, "delay_bound_requested": bound, "delay_bound_completed": E.completed_bound, "schedules": E.executions,
                    "decisions": E.transitions, "distinct_decision_traces": len(E.trace_hashes), "distinct_outcomes": len(outcomes), "capped": E.capped})
        samples.extend([dict(s, stream=name, threads=t) for s in E.samples[:1]])
        # one stall point: every decision point of the canonical schedule, the running thread becomes arbitrarily slow from there
        if not lr_on(name):
            S = schedlib.stall_sweep(exe, [streams_[name], "threads=%d" % t], on, time.time() + max(10, share), timeout=120)
            tot_exec += S["executions"]
            tot_trans += S["transitions"]
            traces += len(S["trace_hashes"])
            stall_total += S["executions"] - 1
            per[-1].update({"stall_points": S["points"], "stall_schedules": S["executions"] - 1, "stall_sweep_complete": S["complete"],
                            "stall_distinct_traces": len(S["trace_hashes"])})
            if not S["complete"]:
                exhaustive = False
            if tier == "thorough":   # the same sweep from the mirrored canonical order (descending thread ids)
                S1 = schedlib.stall_sweep(exe, [streams_[name], "threads=%d" % t], on, time.time() + max(10, share), timeout=120, policy=1)
                tot_exec += S1["executions"]
                tot_trans += S1["transitions"]
                traces += len(S1["trace_hashes"])
                stall_total += S1["executions"] - 1
                per[-1].update({"stall_schedules_policy1": S1["executions"] - 1, "stall_sweep_policy1_complete": S1["complete"]})
                if not S1["complete"]:
                    exhaustive = False
    # memory safety: canonical and mirrored schedule for 1..16 threads in the sanitizer build
    asan_runs = 0
    env = {"ASAN_OPTIONS": "detect_leaks=0:halt_on_error=0:exitcode=0", "UBSAN_OPTIONS": "print_stacktrace=1:halt_on_error=0"}
    for name, pre in streams_.items():
        for t in ((1, 2, 3, 4, 8, 16) if tier == "quick" else range(1, 17)):
            for pol in (0, 1):
                if ck.time_left() < 20:
                    exhaustive = False
                    break
                r = schedlib.run_schedule(exe_asan, [pre, "threads=%d" % t], [], env=env, timeout=300, policy=pol)
                asan_runs += 1
                rep = {"stream": name, "args": STREAMS[name], "threads": t, "delays": "", "policy": pol, "asan": 1}
                for kind, fn in enc.sanitizer_sites(r["stderr"]):
                    ck.violation("C09:%s@%s" % (kind, fn), "%s in %s (stream %s, threads=%d, policy %d)" % (kind, fn, name, t, pol), rep)
                if r["rc"] not in (0,) and not enc.sanitizer_sites(r["stderr"]):
                    ck.violation("C09:crash-asan@%s,threads=%d" % (name, t), "status %s: %s" % (r["rc"], json.dumps(r.get("out"))[:200]), rep)
                elif r["rc"] == 0 and obs(r) != refs[name]:
                    ck.violation(differs_key(name, t), "policy %d yields %s, single-thread decode yields %s" % (pol, obs(r), refs[name]), rep)
    cov = {"states": traces, "transitions": tot_trans, "traces_validated_against_impl": tot_exec + asan_runs, "samples": samples or [{"delays": ""}],
           "exhaustive": exhaustive, "per_session": per, "asan_runs": asan_runs, "stall_schedules": stall_total, "streams": {n: enc.describe(STREAMS[n]) for n in streams_},
           "explanation": "stateless exploration of the real decoder under the serialising scheduler: every schedule with total delay <= bound for "
                          "threads 2,3,4 on each stream, and every schedule with one stall point (VS_STALL=p for every decision point p of the canonical "
                          "schedule: the thread running at p only runs again when all others are blocked or spin without progress); 'states' = distinct decision traces; plus canonical/mirrored schedules for up to 16 threads under ASan+UBSan"}
    return ck.finish(cov, ["hook H1 turns the decoder's volatile-flag busy waits and progress stores into scheduling points; the flag handshakes are assumed to have "
                           "acquire/release semantics (true on x86)", "data races are not decided here (TSan with handshake annotations is not run in this tier)",
                           "streams are produced by the SVT encoder (<= 256x256, <= 9 frames)"])


def replay(path):
    d = json.load(open(path))["replay"]
    wd = vlib.workdir("c09r")
    pre = os.path.join(wd, "s")
    enc.session(dict(d["args"], content="box"), out=pre, timeout=300)
    exe = schedlib.build_decdrv("asan" if d.get("asan") else "rel")
    devs = [tuple(int(x) for x in t.split(":")) for t in d["delays"].split(",") if t]
    a = schedlib.run_schedule(schedlib.build_decdrv("rel"), [pre, "threads=1"], [])
    b = schedlib.run_schedule(exe, [pre, "threads=%d" % d["threads"]], devs, policy=d.get("policy", 0), stalls=d.get("stalls") or (),
                              env={"ASAN_OPTIONS": "detect_leaks=0:halt_on_error=0:exitcode=0", "UBSAN_OPTIONS": "print_stacktrace=1:halt_on_error=0"})
    print("single thread:", obs(a)); print("schedule:", obs(b), "status", b["rc"], b["stderr"][-600:])
    return 0 if (b["rc"] == 0 and obs(a) == obs(b) and not enc.sanitizer_sites(b["stderr"])) else 1
