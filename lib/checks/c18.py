"""C18: frame quantizers stay within the configured QP bounds (DESIGN.md section 4, C18).

Every session is encoded by the real library; the base_q_idx of every coded frame is read back from the emitted bitstream by
the SVT *decoder's* header parser (src/hdr_dump.c, independent of the encoder's bitstream writer; cross-validated on every
stream by pixel agreement of the SVT decoder with libaom).  The quantizer -> qindex table is the checker's own copy.

What is demanded
* rate_control_mode 1 (VBR) and 2 (CVBR): qindex(min_qp_allowed) <= base_q_idx <= qindex(max_qp_allowed) for every coded frame.
* rate_control_mode 0 with use_fixed_qindex_offsets=1 ("fixed QP, no scaling": enable_qp_scaling_flag is forced to 1 by
  copy_api_from_app unless fixed offsets are used): base_q_idx == clip(qindex(qp) + offset, 0, 255) where offset is
  key_frame_qindex_offset for intra frames and qindex_offsets[temporal layer] otherwise (user guide: "the final qindex value will
  be clamped in the valid min/max qindex range").
* rate_control_mode 0 with QP scaling: min/max_qp_allowed are documented as "only applicable when rate control mode is set to 1"
  (EbSvtAv1Enc.h) and copy_api_from_app replaces them by 1..63 in mode 0, so the configured bounds are not demanded there;
  the number of frames outside the configured bounds is reported in coverage.info (mode0_frames_outside_cfg_bounds).
"""
import itertools
import json

import enc
import hdr_dump
import streams

PID = "C18"
QI = hdr_dump.QUANTIZER_TO_QINDEX
BOUNDS = ((0, 63), (1, 63), (10, 20), (20, 20), (0, 0), (62, 63), (30, 31))
QPS = (0, 15, 20, 30, 63)
OFFS = (40, -40, 255, -256)
CONTENTS = ("flat", "noise", "box")
TBR = (50000, 7000000)
N = 17
HL = 3


def layer_of(k):
    """Temporal layer of display position k > 0 in complete 8-picture mini-GOPs of a 4-layer (hierarchical_levels=3) dyadic
    prediction structure."""
    if k % 8 == 0:
        return 0
    if k % 8 == 4:
        return 1
    if k % 4 == 2:
        return 2
    return 3


def offsets_of(a):
    return [int(a.get("qindex_offsets.%d" % i, 0)) for i in range(HL + 1)], int(a.get("key_frame_qindex_offset", 0))


def case(item):
    label, a = item
    pre = streams.prefix_for("c18")
    out = {"label": label, "status": "ok", "viol": [], "info": {}}
    try:
        r = hdr_dump.run_enc(a, pre, timeout=90)
        st = hdr_dump.session_status(r)
        if st:
            out["status"] = st
            return out
        d = hdr_dump.dump(pre, blocks=0)
        if not hdr_dump.usable(d):
            out["status"] = "svtdec-failed:" + hdr_dump.why_unusable(d)
            return out
        ok, msg = hdr_dump.validate(pre, d)
        if not ok:
            out["status"] = "parse-not-confirmed" if ok is None else "svtdec-differs-from-refdec"
            return out
        out["info"]["parse_confirmed_by_" + msg] = 1
        out["pkt_hash"] = r["pkt_hash"]
        mode = int(a.get("rate_control_mode", 0))
        if msg == "dav1d":
            # libaom rejects the stream: observed when the quantizer chosen is qindex 0 (lossless signalled, not implemented)
            q0 = any(f["base_q_idx"] == 0 for f in d["frames"] if not f["show_existing_frame"])
            out["viol"].append(("C18:stream-rejected-by-libaom@%s" % ("base_q_idx=0,rate_control_mode=%d" % mode if q0 else label.split("/")[0]),
                                "libaom reports a corrupt frame (dav1d and the SVT decoder decode it, to pictures that differ from the encoder's recon)"
                                " for a stream whose frames carry base_q_idx 0 = lossless, which the encoder does not implement"))
        fixed = int(a.get("use_fixed_qindex_offsets", 0))
        tpl = int(a.get("enable_tpl_la", 1))
        lo, hi = QI[int(a.get("min_qp_allowed", 1))], QI[int(a.get("max_qp_allowed", 63))]
        qp = int(a.get("qp", 50))
        offs, koff = offsets_of(a)
        frames = [f for f in d["frames"] if not f["show_existing_frame"]]
        out["info"]["coded_frames"] = len(frames)
        if len(frames) != int(a["n"]):
            out["viol"].append(("C18:coded-frame-count@%s" % label.split("/")[0],
                                "%d pictures but %d coded frames in the stream" % (int(a["n"]), len(frames))))
        seen = set()
        for f in frames:
            q = f["base_q_idx"]
            intra = f["frame_type"] in (0, 2)
            k = f["order_hint"]
            if mode in (1, 2):
                kind = "below-min" if q < lo else "above-max" if q > hi else None
                if kind:
                    key = "C18:%s@rate_control_mode=%d,tpl=%d,fixed_offsets=%d" % (kind, mode, tpl, fixed)
                    if key not in seen:
                        seen.add(key)
                        out["viol"].append((key, "display position %d (%s frame): base_q_idx %d outside [%d, %d] = qindex of "
                                                 "min_qp_allowed=%s / max_qp_allowed=%s" %
                                            (k, "intra" if intra else "inter", q, lo, hi, a.get("min_qp_allowed"), a.get("max_qp_allowed"))))
                else:
                    out["info"]["frames_within_bounds"] = out["info"].get("frames_within_bounds", 0) + 1
                    if q == lo or q == hi:
                        out["info"]["frames_at_a_bound"] = out["info"].get("frames_at_a_bound", 0) + 1
            elif fixed:
                lay = "key" if intra else str(layer_of(k))
                off = koff if intra else offs[layer_of(k)]
                want = max(0, min(255, QI[qp] + off))
                if q != want:
                    if want < 4 and q == 4:
                        key = "C18:fixed-qindex-floor-4@rate_control_mode=0"
                    else:
                        key = "C18:fixed-qindex-mismatch@layer=%s" % lay
                    if key not in seen:
                        seen.add(key)
                        out["viol"].append((key, "display position %d (layer %s): base_q_idx %d, expected clip(qindex(qp=%d)=%d %+d, 0, 255) = %d"
                                            % (k, lay, q, qp, QI[qp], off, want)))
                else:
                    out["info"]["frames_exact"] = out["info"].get("frames_exact", 0) + 1
                    if want in (0, 255) and QI[qp] + off != want:
                        out["info"]["frames_exact_clipped"] = out["info"].get("frames_exact_clipped", 0) + 1
            else:
                out["info"]["mode0_scaled_frames"] = out["info"].get("mode0_scaled_frames", 0) + 1
                if q < lo or q > hi:
                    out["info"]["mode0_frames_outside_cfg_bounds"] = out["info"].get("mode0_frames_outside_cfg_bounds", 0) + 1
                if q != QI[qp]:
                    out["info"]["mode0_frames_scaled_away_from_qp"] = out["info"].get("mode0_frames_scaled_away_from_qp", 0) + 1
        return out
    finally:
        enc.cleanup(pre)


def mk(label, **cfg):
    a = {"w": 64, "h": 64, "n": N, "enc_mode": 8, "hierarchical_levels": HL, "intra_period_length": 16}
    a.update(cfg)
    if int(a.get("rate_control_mode", 0)) == 2:
        a["look_ahead_distance"] = int(a["intra_period_length"])  # set_parameter demands look_ahead_distance == intra_period_length for CVBR
    return (label + "/" + a["content"], a)


def offset_patterns():
    """One layer (key, 0..3) deviating by v, all layers deviating by v, all zero, and the user guide's example vector."""
    pats = [("off=0", {})]
    for v in OFFS:
        pats.append(("off[key]=%d" % v, {"key_frame_qindex_offset": v}))
        for l in range(HL + 1):
            pats.append(("off[%d]=%d" % (l, v), {"qindex_offsets.%d" % l: v}))
        allv = {"qindex_offsets.%d" % l: v for l in range(HL + 1)}
        allv["key_frame_qindex_offset"] = v
        pats.append(("off[all]=%d" % v, allv))
    pats.append(("off=guide", {"qindex_offsets.0": -12, "qindex_offsets.1": -8, "qindex_offsets.2": -4, "qindex_offsets.3": 0,
                               "key_frame_qindex_offset": -20}))
    return pats


def cases_for(tier):
    q = tier == "quick"
    cs = []
    # A: rate control (VBR, CVBR): bounds x bitrate x TPL x content x qp
    for mode, (lo, hi), tbr, tpl, c, qp in itertools.product((1, 2), BOUNDS, TBR, (0, 1), CONTENTS, (30,) if q else QPS):
        cs.append(mk("rc=%d,min=%d,max=%d,tbr=%d,tpl=%d,qp=%d" % (mode, lo, hi, tbr, tpl, qp), rate_control_mode=mode,
                     min_qp_allowed=lo, max_qp_allowed=hi, target_bit_rate=tbr, enable_tpl_la=tpl, content=c, qp=qp))
    # A+: several GOPs (the rate control's state carried from GOP to GOP: refinement against the previous GOP's first frame, buffer
    # feedback): 4..5 intra periods, bounds pinned by a starving / lavish bit budget
    for mode, (lo, hi), tbr, c, (w, h) in itertools.product((1, 2), ((10, 40), (20, 20), (0, 0), (62, 63), (30, 31)), TBR, ("noise", "flat") if q else CONTENTS,
                                                             ((64, 64), (256, 128))):
        cs.append(mk("gops:rc=%d,min=%d,max=%d,tbr=%d,%dx%d" % (mode, lo, hi, tbr, w, h), rate_control_mode=mode, min_qp_allowed=lo,
                     max_qp_allowed=hi, target_bit_rate=tbr, content=c, qp=30, w=w, h=h, n=65 if q else 81, intra_period_length=15))
    # A': rate control with the fixed-offset switch on (offsets are documented for mode 0 only: bounds still demanded)
    if not q:
        for mode, (lo, hi), tbr, tpl, c, v in itertools.product((1, 2), BOUNDS, TBR, (0, 1), ("noise", "flat"), (255, -256)):
            allv = {"qindex_offsets.%d" % l: v for l in range(HL + 1)}
            cs.append(mk("rc=%d,min=%d,max=%d,tbr=%d,tpl=%d,fixed=1,off[all]=%d" % (mode, lo, hi, tbr, tpl, v), rate_control_mode=mode,
                         min_qp_allowed=lo, max_qp_allowed=hi, target_bit_rate=tbr, enable_tpl_la=tpl, content=c, qp=30,
                         use_fixed_qindex_offsets=1, key_frame_qindex_offset=v, **allv))
    # B: CQP with adaptive QP scaling: bounds x qp x TPL x content (bounds reported, not demanded: see module docstring)
    for (lo, hi), qp, tpl, c in itertools.product(BOUNDS, (0, 30, 63) if q else QPS, (1,) if q else (0, 1), ("noise", "box") if q else CONTENTS):
        cs.append(mk("rc=0,min=%d,max=%d,qp=%d,tpl=%d" % (lo, hi, qp, tpl), rate_control_mode=0, min_qp_allowed=lo,
                     max_qp_allowed=hi, qp=qp, enable_tpl_la=tpl, content=c))
    # C: CQP with fixed qindex offsets: offset patterns x qp x bounds x TPL x content
    for (name, pat), qp, (lo, hi), tpl, c in itertools.product(offset_patterns(), (0, 30, 63) if q else QPS, ((0, 63), (10, 20)),
                                                               (1,) if q else (0, 1), ("noise",) if q else CONTENTS):
        if q and (lo, hi) == (10, 20) and qp != 30:
            continue
        cs.append(mk("rc=0,fixed=1,%s,qp=%d,min=%d,max=%d,tpl=%d" % (name, qp, lo, hi, tpl), rate_control_mode=0,
                     use_fixed_qindex_offsets=1, qp=qp, min_qp_allowed=lo, max_qp_allowed=hi, enable_tpl_la=tpl, content=c, **pat))
    return cs


RULE = ("encdrv sessions 64x64, 17 pictures, hierarchical_levels 3, intra period 16, preset 8: "
        "A) rate_control_mode {1,2} x (min_qp,max_qp) in %s x target_bit_rate {50000,7000000} x enable_tpl_la {0,1} x content {flat,noise,box} x qp %%s; "
        "A+) rate_control_mode {1,2} x bounds {(10,40),(20,20),(0,0),(62,63),(30,31)} x both bit rates x sizes {64x64,256x128} with intra period 15 over 65 (quick) / 81 pictures; "
        "%%s"
        "B) rate_control_mode 0 (QP scaling) x the same bounds x qp %%s x enable_tpl_la %%s x content %%s; "
        "C) rate_control_mode 0, use_fixed_qindex_offsets=1 x 26 offset patterns (each of key/L0..L3/all deviating by one of {+40,-40,+255,-256}; "
        "all zero; the user guide example) x qp %%s x bounds {(0,63),(10,20)%%s} x enable_tpl_la %%s x content %%s.  "
        "Every coded frame's base_q_idx is read back with the SVT decoder's header parser; non-trivial = accepted, completed, parse confirmed by "
        "libaom pixel agreement; distinct = distinct packet-stream hashes" % (list(BOUNDS),))


def rule(tier):
    if tier == "quick":
        return RULE % ("{30}", "", "{0,30,63}", "{1}", "{noise,box}", "{0,30,63}", " only with qp 30", "{1}", "{noise}")
    return RULE % (list(QPS), "A') the same with use_fixed_qindex_offsets=1 and all offsets +255 / -256, qp 30, content {noise,flat}; ",
                   list(QPS), "{0,1}", "{flat,noise,box}", list(QPS), "", "{0,1}", "{flat,noise,box}")


ASSUMPTIONS = [
    "base_q_idx is read by the SVT decoder's parser (EbDecParseObu.c), which shares no code with the encoder's header writer; the parse is "
    "cross-validated on every stream by equality of the SVT decoder's output pictures with libaom's",
    "quantizer -> qindex table: the checker's own copy of the AV1 reference table {0,4,...,244,249,255}",
    "bounds are demanded for rate_control_mode 1 and 2 (rate control chooses the quantizer); for rate_control_mode 0 the API header documents "
    "min/max_qp_allowed as 'only applicable when rate control mode is set to 1' and copy_api_from_app replaces them by 1..63, so with CQP + "
    "adaptive QP scaling the configured bounds are reported (info.mode0_frames_outside_cfg_bounds) but not demanded",
    "fixed offsets (documented for rc mode 0 only): expected base_q_idx = clip(qindex(qp) + offset, 0, 255) - the user guide's 'valid min/max qindex "
    "range'; the temporal layer of display position k (= order_hint) is the dyadic one of complete 8-picture mini-GOPs (N = 17 gives two "
    "complete mini-GOPs); intra frames (KEY / INTRA_ONLY) take key_frame_qindex_offset",
    "2-pass encoding (rc_firstpass_stats_out / rc_twopass_stats_in) is not reachable through encdrv and is not covered",
    "sessions that are rejected, crash or do not complete are not evaluable here (owned by C11 / C12)",
]


def run(tier):
    hdr_dump.build()
    return streams.run_stream_check(PID, tier, cases_for(tier), case, rule(tier), ASSUMPTIONS,
                                    extra_cov={"oracle": "qindex(min_qp) <= base_q_idx <= qindex(max_qp) (rc 1,2); base_q_idx == clip(qindex(qp)+offset) (rc 0, fixed offsets)"})


def replay(path):
    d = json.load(open(path))
    hdr_dump.build()
    o = case((d["replay"]["label"], d["replay"]["args"]))
    print(json.dumps(o, indent=1))
    return 1 if o["viol"] else 0
