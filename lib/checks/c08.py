"""C08: the decoder's output matches reference AV1 decoders (DESIGN.md 4/C08).

Streams are produced by the SVT encoder over the configuration / size / content alphabets (deviation bound 1); each is decoded by the
SVT decoder (single thread, both internal pipeline bit depths) and by libaom + dav1d; pictures must agree sample for sample."""
import json
import os
import subprocess

import cfgspace
import enc
import streams
import vlib

PID = "C08"
_dec = None


def svtdec(pre, pipe16, timeout=120):
    en = dict(os.environ)
    en["SVT_LOG"] = "-2"
    try:
        p = subprocess.run([_dec, pre, "threads=1", "pipe16=%d" % pipe16], stdout=subprocess.PIPE, stderr=subprocess.PIPE, env=en, timeout=timeout)
    except subprocess.TimeoutExpired:
        return {"timeout": True}
    try:
        return json.loads(p.stdout.decode("latin1").strip().split("\n")[-1])
    except Exception:
        return {"crash": True, "rc": p.returncode, "stderr": p.stderr[-200:].decode("latin1")}


def shape_class(a):
    w, h = int(a.get("w", 64)), int(a.get("h", 64))
    return "portrait" if h > w else "landscape-or-square"


def case(item):
    global _dec
    label, a = item
    if _dec is None:
        _dec = vlib.cc_harness("rel", "decdrv", ["decdrv.c", "vs_stub.c"], enc=False, dec=True)
    pre = streams.prefix_for("c08")
    r = enc.session(a, "rel", out=pre)
    out = {"label": label, "status": "ok", "viol": [], "info": {}}
    cfg = label.split("/")[0]
    try:
        if r.get("timeout") or not r.get("parsed") or not enc.accepted(r) or not (r.get("completed", 0) & 1):
            out["status"] = "no-stream"
            return out
        rd = enc.refdec(pre)
        if rd.get("timeout") or rd.get("crash") or not rd.get("aom") or rd.get("aom_err") or rd.get("agree") == 0:
            out["status"] = "reference-decoders-unusable"   # owned by C01
            return out
        ref = [(f[0], f[1], f[2], f[3]) for f in rd["frames"]]
        out["pkt_hash"] = r["pkt_hash"]
        for pipe16 in (0, 1):
            d = svtdec(pre, pipe16)
            if d.get("timeout"):   # wall-clock limit on a possibly overloaded machine: one more run with a much longer limit before it counts as a hang
                d = svtdec(pre, pipe16, 900)
            cls = "%s,pipe16=%d" % (shape_class(a), pipe16)
            if d.get("timeout"):
                out["viol"].append(("C08:hang@%s" % cls, "SVT decoder does not return on a valid stream [%s]" % label))
                continue
            if d.get("crash"):
                key = "C08:crash@%s" % cls if shape_class(a) == "portrait" else "C08:crash@%s,%s" % (cfg, cls)
                out["viol"].append((key, "SVT decoder crashes (status %s) on a valid stream that libaom and dav1d decode [%s]" % (d.get("rc"), label)))
                continue
            if d.get("nerr"):
                out["viol"].append(("C08:decode-error@%s,%s" % (cfg, cls), "svt_av1_dec_frame returns %#x at TU %d on a valid stream [%s]" % (d["first_err"] & 0xffffffff, d["first_err_tu"], label)))
                continue
            got = [(p[0], p[1], p[2], p[3]) for p in d["pics"]]
            if len(got) != len(ref):
                out["viol"].append(("C08:picture-count@%s,%s" % (cfg, cls), "SVT decoder outputs %d pictures, reference decoders %d [%s]" % (len(got), len(ref), label)))
            elif got != ref:
                first = next(i for i, (x, y) in enumerate(zip(got, ref)) if x != y)
                out["viol"].append(("C08:picture-mismatch@%s,%s" % (cfg, cls), "picture %d: SVT %s, libaom/dav1d %s [%s]" % (first, got[first], ref[first], label)))
            out["info"]["pictures_compared"] = out["info"].get("pictures_compared", 0) + len(ref)
        return out
    finally:
        enc.cleanup(pre)


def cases_for(tier):
    cs = streams.bound01(sizes=((64, 64),), contents=("grad", "screen"), n=7) + streams.sizes_lengths(lengths=(1, 5, 17))
    cs += streams.bound01(sizes=((144, 112),), contents=("box",), n=5, fields=["enc_mode", "encoder_bit_depth", "film_grain_denoise_strength", "superres_mode",
                                                                           "tile_columns", "tile_rows", "screen_content_mode", "palette_level", "cdef_level",
                                                                           "enable_restoration_filtering", "super_block_size", "hierarchical_levels", "qp"],
                          base_extra={"superres_denom": 12, "superres_kf_denom": 12})
    cs += streams.sb128_filters(tier == "thorough") + streams.tile_grids(tier == "thorough") + streams.palette_blocks(tier == "thorough")
    if tier == "thorough":
        cs += streams.bound01(sizes=((144, 112),), contents=("noise", "grad"), n=7)
        cs += streams.cross_depth_sb_pipe_preset()
        cs += streams.big_tiles()
    return cs


def run(tier):
    global _dec
    _dec = vlib.cc_harness("rel", "decdrv", ["decdrv.c", "vs_stub.c"], enc=False, dec=True)
    return streams.run_stream_check(
        PID, tier, cases_for(tier), case,
        "SVT-encoded streams over deviation bound 1 of the configuration table x sizes x contents x lengths; each decoded by the SVT decoder with "
        "is_16bit_pipeline 0 and 1 (threads=1) and by libaom + dav1d; distinct = distinct packet-stream hashes",
        ["libaom 3.6 / dav1d 1.0 are the reference decoders (they must agree with each other, otherwise the stream is excluded)",
         "only streams the SVT encoder emits are covered (no independent encoder harness was built): tools the encoder never uses are not exercised",
         "multi-threaded decoding is C09's subject"])


def replay(path):
    d = json.load(open(path))
    o = case((d["replay"]["label"], d["replay"]["args"]))
    print(json.dumps(o, indent=1))
    return 1 if o["viol"] else 0
