"""C03: one packet per submitted picture, in order, with timestamps and EOS (DESIGN.md 4/C03).

Histories "send N pictures, EOS, drain" are enumerated for all N in a range, crossed with GOP shapes; each runs on the
real library under the controlled scheduler (canonical schedule) so that 'no packet follows the EOS packet' and
'the session does not complete' are decided by quiescence / deadlock detection instead of timeouts."""
import itertools
import json
import os

import enc
import streams
import vlib

PID = "C03"


def deadlock_class(a):
    return "hl=%s,ip=%s,lp=%s" % (a.get("hierarchical_levels", "d"), a.get("intra_period_length", "d"), a.get("logical_processors", 1))


def case(item):
    label, a = item
    pre = streams.prefix_for("c03")
    r = enc.session(a, "rel", sched=True, out=pre, timeout=60, env={"ENCDRV_DUMPSRC": "1"})
    out = {"label": label, "status": "ok", "viol": [], "info": {}}
    cfg = label.split("/")[0]
    try:
        if r.get("timeout"):
            out["status"] = "timeout"
            return out
        if r.get("deadlock") or r.get("livelock"):
            out["status"] = "deadlock"
            out["viol"].append(("C03:does-not-complete@" + deadlock_class(a), "session deadlocks: %s" % json.dumps(r.get("threads"))[:200]))
            return out
        if not r.get("parsed"):
            out["status"] = "crash"
            return out
        if not enc.accepted(r):
            out["status"] = "rejected"
            return out
        n = int(a["n"])
        v = []
        pk = r["pk"]
        if r["npk"] != n:
            v.append(("packet-count", "%d pictures submitted, %d packets delivered" % (n, r["npk"])))
        if not (r["completed"] & 1) and n > 0:
            v.append(("no-eos-packet", "drain ended without a packet carrying EB_BUFFERFLAG_EOS"))
        if r["completed"] & 2:
            v.append(("packet-after-eos", "a packet was delivered after the EOS packet"))
        sp = r["sent_pts"]
        for k, p in enumerate(pk[:n]):
            if p[1] != sp[k]:
                v.append(("pts-order", "packet %d carries pts %d, picture %d was submitted with pts %d" % (k, p[1], k, sp[k])))
                break
        for k, p in enumerate(pk):
            if p[2] != p[1]:
                v.append(("dts", "packet %d: dts %d != pts %d" % (k, p[2], p[1])))
                break
        eos = [k for k, p in enumerate(pk) if p[3] & 1]
        if n > 0 and eos != [len(pk) - 1]:
            v.append(("eos-flag", "EOS flag on packets %s of %d" % (eos, len(pk))))
        if int(a.get("priv", 1)):
            for k, p in enumerate(pk[:n]):
                if p[9] != 0x1000 + 16 * k:
                    key = "p_app_private-null" if p[9] == 0 else "p_app_private-wrong"
                    v.append((key, "packet %d carries p_app_private %#x, picture %d was submitted with %#x" % (k, p[9], k, 0x1000 + 16 * k)))
                    break
        if int(a.get("recon_enabled", 0)):
            rc = r["rc"]
            if r["nrc"] != n:
                v.append(("recon-count", "%d pictures submitted, %d recon pictures delivered" % (n, r["nrc"])))
            pos = sorted(x[0] for x in rc)
            if pos != list(range(len(rc))):
                v.append(("recon-positions", "recon display positions %s" % pos[:20]))
            if n > 0 and [k for k, x in enumerate(rc) if x[1] & 1] != [len(rc) - 1]:
                v.append(("recon-eos", "recon EOS flag not exactly on the last recon picture"))
        if n > 0 and r["npk"] > 0:
            rd = enc.refdec(pre, dav1d=0)
            if not (rd.get("timeout") or rd.get("crash")) and rd.get("aom"):
                if not rd["aom_err"] and rd["aom_frames"] != n and not (int(a.get("over_bndry_blk", -1)) == 0):
                    v.append(("decoded-count", "stream decodes to %d pictures, %d were submitted" % (rd["aom_frames"], n)))
                if rd.get("order_bad", -1) >= 0:
                    v.append(("decoded-order", "decoded picture %d is closer to another submitted picture than to picture %d" % (rd["order_bad"], rd["order_bad"])))
        out["pkt_hash"] = r["pkt_hash"]
        seen = set()
        for k, m in v:
            if k in seen:
                continue
            seen.add(k)
            if k.startswith("p_app_private-null"):
                key = "C03:%s" % k
            elif k in ("pts-order", "p_app_private-wrong", "decoded-order") and a.get("pts") == "perm":
                key = "C03:pts-order@non-monotonic-pts"
            else:
                key = "C03:%s@%s" % (k, cfg)
            out["viol"].append((key, m))
        return out
    finally:
        enc.cleanup(pre)


def cases_for(tier):
    cs = []
    ns = range(0, 11) if tier == "quick" else list(range(0, 21)) + [33, 34, 65]
    ips = (-1, 0, 1, 2, 3, 7, 8, 15, 16)
    for n, hl, ip, rt, ov in itertools.product(ns, range(0, 6), ips, (1, 2), (0, 1)):
        if tier == "quick" and (ip in (15, 16) or (ov == 1 and rt == 1 and n % 2)):
            continue
        cs.append(("hl=%d,ip=%d,rt=%d,ov=%d/n=%d" % (hl, ip, rt, ov, n),
                   {"w": 64, "h": 64, "n": n, "content": "grad", "enc_mode": 8, "hierarchical_levels": hl, "intra_period_length": ip,
                    "intra_refresh_type": rt, "enable_overlays": ov, "recon_enabled": 1}))
    # bound-1 deviations of the fields that shape buffering, and pts alphabets
    for f, vals in (("tf_level", (0, 1, 2)), ("altref_nframes", (1, 7, 10)), ("look_ahead_distance", (0, 1, 17, 33)),
                    ("enable_tpl_la", (0, 1)), ("rate_control_mode", (1, 2)), ("recon_enabled", (0,)), ("logical_processors", (2, 4))):
        for v in vals:
            for n in (1, 2, 5, 9, 17):
                cs.append(("%s=%s/n=%d" % (f, v, n), {"w": 64, "h": 64, "n": n, "content": "grad", "enc_mode": 8, "hierarchical_levels": 3,
                                                      "recon_enabled": 1, f: v}))
    for pm in ("off", "perm", "neg", "big", "bigneg"):
        for n in (1, 4, 9):
            for hl in (0, 3):
                cs.append(("pts=%s,hl=%d/n=%d" % (pm, hl, n), {"w": 64, "h": 64, "n": n, "content": "grad", "enc_mode": 8,
                                                               "hierarchical_levels": hl, "recon_enabled": 1, "pts": pm}))
    return cs


def run(tier):
    return streams.run_stream_check(
        PID, tier, cases_for(tier), case,
        "histories 'send N pictures, EOS, drain' for every N in %s crossed completely with hierarchical levels 0..5 x intra period x "
        "refresh type x overlays, plus bound-1 deviations of buffering fields and the pts alphabets; executed under the controlled "
        "scheduler (canonical schedule); distinct = distinct packet-stream hashes" % ("0..10" if tier == "quick" else "0..20,33,34,65"),
        ["end of output and non-completion are decided by scheduler quiescence / deadlock detection, not timeouts",
         "decoded order oracle: decoded picture k is at least as close (luma SSE) to source k as to any other source (libaom decode)"],
        level="model_checking",
        extra_cov={"states": 0, "transitions": 0, "traces_validated_against_impl": 0})


def replay(path):
    d = json.load(open(path))
    o = case((d["replay"]["label"], d["replay"]["args"]))
    print(json.dumps(o, indent=1))
    return 1 if o["viol"] else 0
