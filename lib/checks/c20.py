"""C20: disabled coding tools never appear in the bitstream and the requested tiling is used (DESIGN.md section 4, C20).

Every session is encoded by the real library; the emitted stream is then parsed frame by frame by the SVT *decoder*
(src/hdr_dump.c: FrameHeader / SeqHeader fields and per-frame block-level tool counters from the BlockModeInfo records), whose
parse is confirmed on every stream by pixel agreement with libaom (dav1d when libaom rejects the stream).

Tools: for each switch the 'off' run must show no use in any frame header and in no block; the 'on' runs only measure whether the
tool is reachable at all in the enumerated space (a tool never used when 'on' makes its 'off' check VACUOUS; reported, not a violation).
Tiles: parsed tile counts and tile start positions must equal the checker's own transcription of the AV1 tile_info() process
(spec 5.9.15, uniform spacing) for the requested log2 values clamped to [minLog2, maxLog2] of the frame.
"""
import itertools
import json

import enc
import hdr_dump
import streams
import vlib

PID = "C20"


def _any(v):
    return 1 if any(v) else 0


# tool -> (off settings, on settings, needs screen_content_mode==1, use(frame) -> count, sequence header enabling flag or None)
TOOLS = {
    "loop_filter": ({"disable_dlf_flag": 1}, {"disable_dlf_flag": 0}, False,
                    lambda f: _any(f["lf_level"][:2]), None),
    "cdef": ({"cdef_level": 0}, {"cdef_level": 4}, False,
             lambda f: _any(f["cdef_y_strength"]) + _any(f["cdef_uv_strength"]), "enable_cdef"),
    "restoration": ({"enable_restoration_filtering": 0, "sg_filter_mode": 0, "wn_filter_mode": 0},
                    {"enable_restoration_filtering": 1, "sg_filter_mode": 1, "wn_filter_mode": 3}, False,
                    lambda f: _any(f["lr_type"]), "enable_restoration"),
    "restoration[flag-only]": ({"enable_restoration_filtering": 0}, None, False,
                               lambda f: _any(f["lr_type"]), "enable_restoration"),
    "palette": ({"palette_level": 0}, {"palette_level": 1}, False,
                lambda f: f["b_palette_y"] + f["b_palette_uv"], None),
    "intrabc": ({"intrabc_mode": 0}, {"intrabc_mode": 1}, True,
                lambda f: f["allow_intrabc"] + f["b_intrabc"], None),
    "global_motion": ({"enable_global_motion": 0}, {"enable_global_motion": 1}, False,
                      lambda f: _any(f.get("gm_type", [])), None),
    "warped_motion": ({"enable_warped_motion": 0}, {"enable_warped_motion": 1}, False,
                      lambda f: f["allow_warped_motion"] + f["b_warped"], "enable_warped_motion"),
    "obmc": ({"obmc_level": 0}, {"obmc_level": 1}, False,
             lambda f: f["b_obmc"], None),
    "filter_intra": ({"filter_intra_level": 0}, {"filter_intra_level": 1}, False,
                     lambda f: f["b_filter_intra"], "enable_filter_intra"),
    "cfl": ({"disable_cfl_flag": 1}, {"disable_cfl_flag": 0}, False,
            lambda f: f["b_cfl"], None),
    "inter_intra": ({"inter_intra_compound": 0}, {"inter_intra_compound": 1}, False,
                    lambda f: f["b_interintra"], "enable_interintra_compound"),
    # superres is only applied when the sequence enables restoration, and crashes in tpl_mc_flow with TPL on (owned by C11)
    "superres": ({"superres_mode": 0}, {"superres_mode": 1, "superres_denom": 16, "superres_kf_denom": 16, "enable_tpl_la": 0,
                                        "enable_restoration_filtering": 1}, False,
                 lambda f: int(f["superres_denominator"] != 8 or f["superres_upscaled_width"] != f["frame_width"]), "enable_superres"),
}
CONTENTS = ("grad", "screen", "box", "noise")
# content with a rotating + zooming camera (src/hdr_enc.c): the only content on which the encoder selects a global motion model
HDR_ENC_CONTENTS = ("rotzoom",)
HDR_ENC_TOOLS = ("global_motion", "warped_motion", "obmc", "inter_intra")  # switches hdr_enc's field table knows
TILE_SIZES = ((64, 64), (128, 128), (256, 256), (512, 128), (1024, 64))
# 64x2160: the SVT decoder crashes on every picture taller than wide (valid streams; owned by the decoder properties), so these
# sessions are counted as not evaluable until that is repaired; 1024x1024 supplies many tile rows in the meantime
TILE_SIZES_T = ((4096, 64), (64, 2160), (1024, 1024))


def analyse(a, pre, out, blocks):
    """Runs the session + hdr_dump.  Returns (r, d) or None after setting out['status']."""
    r = hdr_dump.run_hdr_enc(a, pre) if a.get("content") in HDR_ENC_CONTENTS else hdr_dump.run_enc(a, pre, timeout=240)
    st = hdr_dump.session_status(r)
    if st:
        out["status"] = st
        return None
    d = hdr_dump.dump(pre, blocks=blocks)
    if not hdr_dump.usable(d):
        out["status"] = "svtdec-failed:" + hdr_dump.why_unusable(d)
        return None
    ok, msg = hdr_dump.validate(pre, d)
    if not ok:
        out["status"] = "parse-not-confirmed" if ok is None else "svtdec-differs-from-refdec"
        return None
    out["info"]["parse_confirmed_by_" + msg] = 1
    out["pkt_hash"] = r["pkt_hash"]
    return r, d


def case(item):
    label, a = item
    a = dict(a)
    meta = a.pop("_meta")
    pre = streams.prefix_for("c20")
    out = {"label": label, "status": "ok", "viol": [], "info": {}, "use": {}}
    try:
        if meta["kind"] == "tiles":
            res = analyse(a, pre, out, 0)
            if not res:
                return out
            r, d = res
            seq = d["seq"]
            use128 = seq["use_128x128_superblock"]
            out["info"]["tile_sessions_sb%d" % (128 if use128 else 64)] = 1
            for f in d["frames"]:
                if f["show_existing_frame"]:
                    continue
                want = hdr_dump.spec_uniform_tiles(f["frame_width"], f["frame_height"], use128, int(a["tile_columns"]), int(a["tile_rows"]))
                got = (f["tile_cols"], f["tile_rows"], f["tile_col_start_mi"], f["tile_row_start_mi"])
                exp = (want["tile_cols"], want["tile_rows"], want["col_starts_mi"], want["row_starts_mi"])
                out["info"]["tile_frames"] = out["info"].get("tile_frames", 0) + 1
                if want["tile_cols"] * want["tile_rows"] > 1:
                    out["info"]["tile_frames_multi"] = out["info"].get("tile_frames_multi", 0) + 1
                if (1 << int(a["tile_columns"])) != want["tile_cols"] or (1 << int(a["tile_rows"])) != want["tile_rows"]:
                    out["info"]["tile_frames_limited_by_size"] = out["info"].get("tile_frames_limited_by_size", 0) + 1
                if not f["uniform_tile_spacing_flag"]:
                    out["info"]["tile_frames_nonuniform_syntax"] = out["info"].get("tile_frames_nonuniform_syntax", 0) + 1
                if got != exp:
                    out["viol"].append(("C20:tile-layout@%dx%d,sb=%d,tile_columns=%s,tile_rows=%s" % (a["w"], a["h"], 128 if use128 else 64, a["tile_columns"], a["tile_rows"]),
                                        "frame at order_hint %d: stream signals %d x %d tiles (col starts %s, row starts %s in 4x4 units), the AV1 tile_info "
                                        "process gives %d x %d (col starts %s, row starts %s)" % ((f["order_hint"],) + got + exp)))
                    break
            return out
        res = analyse(a, pre, out, 1)
        if not res:
            return out
        r, d = res
        frames = [f for f in d["frames"] if not f["show_existing_frame"]]
        out["info"]["coded_frames"] = len(frames)
        uses = {t: sum(spec[3](f) for f in frames) for t, spec in TOOLS.items()}
        out["use"] = {"kind": meta["kind"], "tool": meta.get("tool"), "preset": a["enc_mode"], "scm": a["screen_content_mode"], "content": a["content"],
                      "uses": uses, "sct_frames": sum(f["allow_screen_content_tools"] for f in frames)}
        for t in (meta["tools"] if meta["kind"] == "alloff" else [meta["tool"]] if meta["kind"] == "off" else []):
            flag = TOOLS[t][4]
            if flag and d["seq"].get(flag):
                out["info"]["seq_flag_set_although_off:" + t] = 1
            if uses[t]:
                bad = [f for f in frames if TOOLS[t][3](f)][0]
                detail = {k: bad[k] for k in bad if k.startswith(("b_", "lf_", "cdef_", "lr_", "gm_", "allow_", "superres", "frame_width", "frame_type", "order_hint"))}
                out["viol"].append(("C20:tool-used-although-%s:%s@preset=%s,scm=%s" % ("all-off" if meta["kind"] == "alloff" else "off", t, a["enc_mode"], a["screen_content_mode"]),
                                    "%s is switched off (%s) but %d of %d coded frames use it; first: %s"
                                    % (t, ",".join("%s=%s" % kv for kv in TOOLS[t][0].items()), sum(1 for f in frames if TOOLS[t][3](f)), len(frames), json.dumps(detail))))
        return out
    finally:
        enc.cleanup(pre)


def mk(label, meta, w, h, n, **cfg):
    a = {"w": w, "h": h, "n": n, "hierarchical_levels": 3, "_meta": meta}
    a.update(cfg)
    return (label, a)


def presets(tier):
    return (8, 4) if tier == "quick" else (8, 4, 6, 2, 0)


def contents(tier):
    return ("screen", "box") if tier == "quick" else CONTENTS


# quick only: tools that the quick presets never select get their off/on runs at one more preset (inter-intra needs preset <= 2)
QUICK_EXTRA_PRESETS = {"inter_intra": (2,)}


def tile_sizes(tier):
    return TILE_SIZES + (TILE_SIZES_T if tier == "thorough" else ())


def cases_for(tier):
    cs = []

    def tool_cases(t, base, w, h, lab):
        off, on = TOOLS[t][0], TOOLS[t][1]
        for kind, st in (("off", off), ("on", on)):
            if st is None:
                continue
            cfg = dict(base)
            cfg.update(st)
            cs.append(mk("%s=%s/%s" % (t, kind, lab), {"kind": kind, "tool": t}, w, h, 10, **cfg))

    for p, scm, c in itertools.product(presets(tier), (0, 1, 2), contents(tier)):
        base = {"enc_mode": p, "screen_content_mode": scm, "content": c}
        lab = "preset=%d,scm=%d/%s" % (p, scm, c)
        cs.append(mk("default/" + lab, {"kind": "default"}, 128, 128, 10, **base))
        for t in TOOLS:
            if TOOLS[t][2] and scm != 1:
                continue  # set_parameter only accepts an explicit intrabc_mode together with screen_content_mode=1
            tool_cases(t, base, 128, 128, lab)
        # every switch off at once
        cfg = dict(base)
        offs = [t for t, spec in TOOLS.items() if not (spec[2] and scm != 1)]
        for t in offs:
            cfg.update(TOOLS[t][0])
        cs.append(mk("all=off/" + lab, {"kind": "alloff", "tools": offs}, 128, 128, 10, **cfg))
    if tier == "quick":
        for t, ps in QUICK_EXTRA_PRESETS.items():
            for p, scm, c in itertools.product(ps, (0, 1, 2), contents(tier)):
                tool_cases(t, {"enc_mode": p, "screen_content_mode": scm, "content": c}, 128, 128, "preset=%d,scm=%d/%s" % (p, scm, c))
    # rotating + zooming content (hdr_enc): the switches its field table knows
    for p, scm in itertools.product(presets(tier), (0,) if tier == "quick" else (0, 1, 2)):
        base = {"enc_mode": p, "screen_content_mode": scm, "content": "rotzoom"}
        lab = "preset=%d,scm=%d/rotzoom" % (p, scm)
        cs.append(mk("default/" + lab, {"kind": "default"}, 256, 256, 10, **base))
        for t in (HDR_ENC_TOOLS[:2] if tier == "quick" else HDR_ENC_TOOLS):
            tool_cases(t, base, 256, 256, lab)
    # tiles: preset 8 codes 64x64 superblocks, preset 4 (TPL off) 128x128 superblocks
    for (w, h), (p, sb), tr, tc in itertools.product(tile_sizes(tier), ((8, 64), (4, 128)), range(0, 7), range(0, 5)):
        cs.append(mk("tiles/%dx%d,sb=%d,tile_rows=%d,tile_columns=%d" % (w, h, sb, tr, tc), {"kind": "tiles"}, w, h,
                     2, content="grad", enc_mode=p, super_block_size=sb, enable_tpl_la=0, tile_rows=tr, tile_columns=tc))
    # most expensive first
    cs.sort(key=lambda c: (c[1]["enc_mode"], -c[1]["w"] * c[1]["h"] * c[1]["n"]))
    return cs


ASSUMPTIONS = [
    "header fields and block modes are read by the SVT decoder's parser (EbDecParseObu.c / EbDecParseBlock.c), which shares no code with the "
    "encoder's bitstream writer; a stream is only evaluated when the SVT decoder's output pictures equal libaom's (dav1d's when libaom rejects the stream)",
    "block counters use only fields the parser writes for that block class: palette / CfL (chroma-reference blocks) / filter-intra for intra "
    "blocks, motion_mode and ref_frame[1]==INTRA_FRAME (inter-intra) for inter blocks, use_intrabc for all",
    "'used': loop filter = a non-zero luma filter level; CDEF = a non-zero strength; restoration = a frame_restoration_type != NONE; global motion = a "
    "gm_type != IDENTITY; superres = denominator != 8; intrabc / warped = frame flag or block use; palette, OBMC, filter-intra, CfL, inter-intra = block use",
    "a sequence-header enabling flag that stays set although the tool is off is not a violation of 'no frame or block uses the tool'; it is counted in "
    "coverage.info (seq_flag_set_although_off:<tool>)",
    "tile oracle: the checker's transcription of AV1 spec 5.9.15 (uniform_tile_spacing_flag=1) with the requested log2 values clamped to "
    "[minLog2TileCols, maxLog2TileCols] / [minLog2TileRows, maxLog2TileRows]; superblock size as signalled in the sequence header "
    "(the super_block_size configuration field is overridden by the library: preset <= 4 without TPL gives 128, else 64)",
    "intrabc_mode can only be set explicitly with screen_content_mode=1 (set_parameter rejects it otherwise): its off/on runs exist for scm=1 only",
    "sessions that are rejected (tile_rows + tile_columns > 7), crash or do not complete are not evaluable and are counted in status_counts; "
    "streams on which the SVT decoder itself crashes (every picture taller than wide, e.g. 64x2160) cannot be inspected and are counted as svtdec-failed",
]


def run(tier):
    ck = vlib.Check(PID, tier, "exploration")
    enc.tools("rel")
    hdr_dump.build()
    cases = cases_for(tier)
    res, complete = vlib.pmap_deadline(case, cases, ck.deadline - 40)
    stat, hashes, samples, notok, info = {}, set(), [], [], {}
    on_used, on_runs, off_runs, on_where = {}, {}, {}, {}
    for (label, a), o in res:
        stat[o["status"]] = stat.get(o["status"], 0) + 1
        for k, v in (o.get("info") or {}).items():
            info[k] = info.get(k, 0) + v
        if o["status"] == "ok":
            hashes.add(o.get("pkt_hash"))
            if len(samples) < 4 or (len(samples) < 6 and label.startswith("tiles")):
                samples.append({"case": label, "args": enc.describe({k: v for k, v in a.items() if k != "_meta"}), "pkt_hash": o.get("pkt_hash")})
            u = o.get("use") or {}
            if u.get("kind") == "on":
                t = u["tool"]
                on_runs[t] = on_runs.get(t, 0) + 1
                if u["uses"][t]:
                    on_used[t] = on_used.get(t, 0) + 1
                    on_where.setdefault(t, set()).add("preset=%s,scm=%s,%s" % (u["preset"], u["scm"], u["content"]))
            elif u.get("kind") == "off":
                off_runs[u["tool"]] = off_runs.get(u["tool"], 0) + 1
            if u.get("kind") in ("default", "on", "off") and u.get("uses"):
                # any run in which a tool is not switched off also shows whether it is reachable
                for t, n in u["uses"].items():
                    if n and not (u["kind"] == "off" and u["tool"].split("[")[0] == t.split("[")[0]):
                        info["runs_using:" + t] = info.get("runs_using:" + t, 0) + 1
        elif len(notok) < 30:
            notok.append("%s: %s" % (o["status"], label))
        for key, msg in o["viol"]:
            ck.violation(key, "%s [%s]" % (msg, label), {"args": a, "label": label})
    tools = {}
    for t, spec in TOOLS.items():
        base = t.split("[")[0]
        used = on_used.get(base, 0)
        tools[t] = {"off_runs": off_runs.get(t, 0), "on_runs": on_runs.get(base, 0), "on_runs_using_it": used,
                    "verdict": "VACUOUS" if not used else "checked",
                    "on_used_in": sorted(on_where.get(base, ()))[:6]}
    cov = {"evaluations": len(res), "distinct_nontrivial": len(hashes), "exhaustive": bool(complete), "enumerated": len(cases),
           "rule": "tools: each of %d switches off and on (and all off at once) x presets %s x screen_content_mode {0,1,2} x content %s, 128x128, 10 pictures, "
                   "hierarchical_levels 3, plus the default configuration of every (preset, scm, content)%s; %s off and on also on a rotating+zooming 256x256 content "
                   "(hdr_enc, scm %s); tiles: tile_rows 0..6 x tile_columns 0..4 x sizes %s x superblock {64 (preset 8), 128 (preset 4, TPL off)}, 2 pictures; "
                   "every coded frame of every stream inspected; distinct = distinct packet-stream hashes"
                   % (len(TOOLS), list(presets(tier)), list(contents(tier)),
                      "; inter-intra off/on additionally at preset 2" if tier == "quick" else "",
                      "global motion / warped motion" if tier == "quick" else "global motion / warped motion / OBMC / inter-intra",
                      "0" if tier == "quick" else "{0,1,2}", ["%dx%d" % s for s in tile_sizes(tier)]),
           "samples": samples, "status_counts": stat, "not_evaluable_examples": notok, "info": info, "tools": tools,
           "vacuous_tools": sorted(t for t, v in tools.items() if v["verdict"] == "VACUOUS"),
           "oracle": "tool off => no frame-level or block-level use in any coded frame; parsed tile layout == AV1 tile_info() result for the requested log2 values"}
    return ck.finish(cov, ASSUMPTIONS)


def replay(path):
    d = json.load(open(path))
    hdr_dump.build()
    o = case((d["replay"]["label"], d["replay"]["args"]))
    print(json.dumps(o, indent=1, default=str))
    return 1 if o["viol"] else 0
