"""C07 driver assignment, group misc: picture pack/unpack/convert kernels, motion estimation SAD kernels, FFT, palette, others."""
import re

SOURCES = ["kern_drv_misc.c", "kern_drv_misc_sad.c", "kern_drv_misc_oth.c", "kern_drv_misc_fp.c"]

# dispatch pointer name -> driver
BY_PTR = {
    # kern_drv_misc.c
    "svt_pack2d_16_bit_src_mul4": "misc_pack2d",
    "svt_compressed_packmsb": "misc_compressed_packmsb",
    "svt_c_pack": "misc_c_pack",
    "svt_un_pack2d_16_bit_src_mul4": "misc_unpack2d",
    "svt_un_pack8_bit_data": "misc_unpack8",
    "svt_unpack_avg": "misc_unpack_avg",
    "svt_unpack_avg_safe_sub": "misc_unpack_avg_safe_sub",
    "svt_convert_8bit_to_16bit": "misc_conv8to16",
    "svt_convert_16bit_to_8bit": "misc_conv16to8",
    "svt_copy_rect8_8bit_to_16bit": "misc_copy_rect8",
    "svt_picture_average_kernel": "misc_pic_avg",
    "svt_picture_average_kernel1_line": "misc_pic_avg1",
    "svt_memcpy": "misc_memcpy",
    "svt_initialize_buffer_32bits": "misc_init_buffer32",
    "svt_log2f": "misc_log2f",
    # kern_drv_misc_sad.c
    "svt_nxm_sad_kernel": "misc_nxm_sad",
    "svt_nxm_sad_kernel_sub_sampled": "misc_nxm_sad_sub",
    "sad_16b_kernel": "misc_sad16b",
    "variance_highbd": "misc_variance_highbd",
    "svt_sad_loop_kernel": "misc_sad_loop",
    "svt_ext_sad_calculation_8x8_16x16": "misc_ext_sad_8x8_16x16",
    "svt_ext_all_sad_calculation_8x8_16x16": "misc_ext_all_sad",
    "svt_ext_sad_calculation_32x32_64x64": "misc_ext_sad_32x32_64x64",
    "svt_ext_eight_sad_calculation_32x32_64x64": "misc_ext_eight_sad_32x32_64x64",
    "svt_compute_mean_square_values_8x8": "misc_mean_sq_8x8",
    "svt_compute_sub_mean_8x8": "misc_sub_mean_8x8",
    "svt_compute_interm_var_four8x8": "misc_interm_var_four8x8",
    # kern_drv_misc_oth.c
    "svt_av1_calc_frame_error": "misc_frame_error",
    "svt_av1_compute_cross_correlation": "misc_cross_corr",
    "svt_av1_haar_ac_sad_8x8_uint8_input": "misc_haar_ac_sad",
    "svt_av1_get_gradient_hist": "misc_gradient_hist",
    "svt_search_one_dual": "misc_search_one_dual",
    "svt_av1_apply_temporal_filter_planewise": "misc_tf_planewise",
    "svt_av1_apply_temporal_filter_planewise_hbd": "misc_tf_planewise",
}
# driver argument k->a
A_BY_PTR = {"svt_av1_apply_temporal_filter_planewise_hbd": 1}

DRIVERS = sorted(set(BY_PTR.values())) + ["misc_fft", "misc_calc_indices", "misc_kmeans"]


def classify(e, w, h):
    n = e["ptr"]
    # kern_drv_misc_fp.c
    m = re.fullmatch(r"svt_aom_(i?)fft(\d+)x(\d+)_float", n)
    if m:
        return ("misc_fft", int(m.group(2)), int(m.group(3)), 1 if m.group(1) else 0, 0)  # a: 1 = inverse
    m = re.fullmatch(r"svt_av1_calc_indices_dim([12])", n)
    if m:
        return ("misc_calc_indices", 0, 0, int(m.group(1)), 0)  # a: dimension
    m = re.fullmatch(r"svt_av1_k_means_dim([12])", n)
    if m:
        return ("misc_kmeans", 0, 0, int(m.group(1)), 0)  # a: dimension
    d = BY_PTR.get(n)
    if d is None:
        return None
    return (d, w, h, A_BY_PTR.get(e["ptr"], 0), 0)


# what each driver enumerates (copied into the evidence; full statement in the header comments of the C sources)
DOC = {
    'misc_* pack/unpack/convert/memcpy/log2f':
        'every width the callers can pass (multiples of 4 up to 260 / any 1..136) x heights x stride tuples from {w,w+1,w+16,2w} x all patterns / pattern pairs; svt_log2f: every x in 0..65535 (thorough 0..2^22) + powers of two; svt_memcpy: sizes 0..300 (+large) x dst/src offsets',
    'misc_nxm_sad*, misc_sad16b, misc_variance_highbd':
        'the 22 block sizes (nxm_sad: widths 8..64 x heights 4..32) x stride pairs x ref offset {0,1} x all pattern pairs',
    'misc_sad_loop':
        'HME block sizes of the three levels (w 2..64, h 1..64) x search area widths {1,3,7,8,9,15,16,24,32} x heights x strides (rotating) x pattern pairs + planted exact-match positions (first, last, just outside the area); best_sad and position compared',
    'misc_ext_*':
        '8x8/16x16/32x32/64x64 SAD aggregation kernels: stride pairs x sub_sad x all pattern pairs x 4 best-array states (max, 0, tie, tie+1); whole output records',
    'misc_fft':
        'N in {4,8,16,32} forward and inverse: integers 0..255, 0..1023, +-255, the caller pipeline (8/10-bit) x every pattern, impulse at every position, complete {min,max}^16 cube for 4x4; memcmp of float outputs (sign-of-zero-only differences reported under their own key)',
    'misc_kmeans / misc_calc_indices':
        'dim 1 and 2, n of 14 block sizes, k 2..8, bit depth 8/10, pattern alphabet + few-colour textures, centroid sets as the caller computes them, max_itr 50',
    'misc_frame_error, misc_cross_corr, misc_haar_ac_sad, misc_gradient_hist, misc_search_one_dual, misc_tf_planewise':
        'see header comments of src/kern_drv_misc_oth.c (sizes and parameters of every call site; all pattern pairs)',
}
