import sys, os, time
sys.path.insert(0, os.path.dirname(os.path.abspath(__file__)))
import vlib

def main():
    t0 = time.time()
    for v in ("rel", "asan", "tsan", "dbg"):
        try:
            dt = vlib.ensure_build(v)
            print("variant %s built in %.0fs" % (v, dt), flush=True)
        except vlib.BuildError as e:
            print("variant %s FAILED: %s" % (v, e), flush=True)
            return 2
    import enc
    enc.tools("rel")
    # oracle self-test: reference decoders agree with each other and with the encoder on a known session
    r = enc.session({"w": 64, "h": 64, "n": 5, "recon_enabled": 1}, out=os.path.join(vlib.workdir("setup"), "st"))
    rd = enc.refdec(os.path.join(vlib.BUILD, "work", "setup", "st"))
    print("self-test: libaom=%s dav1d=%s agree=%s recon_mismatch=%s" % (rd.get("aom"), rd.get("dav1d"), rd.get("agree"), rd.get("rec_mismatch")), flush=True)
    print("setup done in %.0fs" % (time.time() - t0))
    return 0

if __name__ == "__main__":
    sys.exit(main())
