"""C07 driver assignment, group blend: AOM_BLEND_A64 family, compound diffwtd masks, wedge helpers, CfL, subtract / sse / mse, upsampled_pred.

Domains, alphabets and call-site citations are in the header comments of the four src/kern_drv_blend*.c files.
(svt_aom_highbd_8_mse16x16 is named mse_void_hbd8 by kern_rules_base.py, which is loaded first; the driver lives in kern_drv_blend_cfl.c.)
"""

SOURCES = ["kern_drv_blend.c", "kern_drv_blend_mask.c", "kern_drv_blend_cfl.c", "kern_drv_blend_upsampled.c"]
_BY_NAME = {
    "svt_aom_blend_a64_mask": "blend_mask_lbd",
    "svt_aom_highbd_blend_a64_mask": "blend_mask_hbd",
    "svt_aom_blend_a64_hmask": "blend_hmask_lbd",
    "svt_aom_blend_a64_vmask": "blend_vmask_lbd",
    "svt_aom_highbd_blend_a64_hmask_8bit": "blend_hmask_hbd8",
    "svt_aom_highbd_blend_a64_vmask_8bit": "blend_vmask_hbd8",
    "svt_aom_highbd_blend_a64_hmask_16bit": "blend_hmask_hbd16",
    "svt_aom_highbd_blend_a64_vmask_16bit": "blend_vmask_hbd16",
    "svt_aom_lowbd_blend_a64_d16_mask": "blend_d16_lbd",
    "svt_aom_highbd_blend_a64_d16_mask": "blend_d16_hbd",
    "svt_av1_build_compound_diffwtd_mask": "diffwtd_lbd",
    "svt_av1_build_compound_diffwtd_mask_highbd": "diffwtd_hbd",
    "svt_av1_build_compound_diffwtd_mask_d16": "diffwtd_d16",
    "svt_av1_wedge_sse_from_residuals": "wedge_sse",
    "svt_av1_wedge_sign_from_residuals": "wedge_sign",
    "svt_av1_wedge_compute_delta_squares": "wedge_delta_squares",
    "svt_cfl_luma_subsampling_420_lbd": "cfl_subsample_lbd",
    "svt_cfl_luma_subsampling_420_hbd": "cfl_subsample_hbd",
    "svt_subtract_average": "cfl_subtract_average",
    "svt_cfl_predict_lbd": "cfl_predict_lbd",
    "svt_cfl_predict_hbd": "cfl_predict_hbd",
    "svt_aom_subtract_block": "subtract_block",
    "svt_aom_highbd_subtract_block": "subtract_block_hbd",
    "svt_aom_sse": "sse_wxh",
    "svt_aom_highbd_sse": "sse_wxh_hbd",
    "svt_aom_highbd_8_mse16x16": "mse_void_hbd8",
    "svt_aom_upsampled_pred": "upsampled_pred",
}
DRIVERS = sorted(set(_BY_NAME.values()))


def classify(e, w, h):
    d = _BY_NAME.get(e["ptr"])
    return (d, w, h, 0, 0) if d else None


# what each driver enumerates (copied into the evidence; full statement in the header comments of the C sources)
DOC = {
    'blend family (blend_*)':
        'sizes 2x2..128x128 (d16: the 22 AV1 sizes; 1-D OBMC masks: {2..128}^2) x (subw,subh) {(0,0),(1,1),(1,0)} x aliasing {none, dst==src0, dst==src1} x stride configurations x masks 0..64 (and svt_av1_get_obmc_mask) x all pattern pairs with the third input cycling; complete cubes on 4x4; complete (mask, src0, src1) value sweep 65x256x256 for one size per width class; bit depth 8/10/12 for highbd; d16 sources over the exact CONV_BUF range',
    'diffwtd_*':
        '16 block sizes with min(w,h)>=8 x both mask types x strides x all pattern pairs + complete (src0,src1) value-pair sweep',
    'wedge_*':
        'N 64..16384 (sse) / 64..1024 x residual ranges +-255, +-1023 x masks 0..64; sign: ds from delta_squares_c and over the int16 range, limit in {acc-1, acc, acc+1, 0, -acc}',
    'cfl_*':
        '14 CfL sizes x strides x offsets x bit depth; predict: every alpha_q3 -16..16 x DC levels x AC manufactured by the C subsampling + subtract_average (the only input form callers produce)',
    'subtract_block*, sse_wxh*, mse_void_hbd8':
        '22 block sizes x strides x offsets x all pattern pairs + complete value-pair sweeps (8-bit, 10-bit)',
    'upsampled_pred':
        '22 block sizes x all 64 sub-pel positions x 4-tap/8-tap x strides x reference offset x patterns',
}
