#!/usr/bin/env python3
"""Regenerates MANIFEST.json from the table below (kept in one place so that it is always valid)."""
import json
import os
import sys

HERE = os.path.dirname(os.path.abspath(__file__))
ROOT = os.path.dirname(HERE)

CHECKS = {
    # id: (engine, category, technique, level text, level note, design ref)
    "C01": ("encdrv+refdec", "exploration",
            "bounded-exhaustive enumeration of configurations (deviation bound 1, 2 thorough) x sizes x contents x lengths; differential oracle libaom+dav1d vs recon",
            "Every configuration within deviation bound 1 (thorough: 2) of the base, every listed size/content/length is encoded and its recon compared picture by picture with two independent decoders; no sampling.",
            "libaom 3.6/dav1d 1.0 trusted as conforming decoders; bounds: sizes <= 256x192, <= 17 frames, <= 2 simultaneous parameter deviations", "4/C01"),
    "C02": ("encdrv+obu", "exploration",
            "bounded-exhaustive enumeration of configurations and GOP shapes; independent OBU/header parser as oracle on every packet",
            "Every packet of every session in the configuration / GOP-shape cross products is parsed by an independent OBU parser and checked for TU structure, sequence-header identity and pic_type agreement.",
            "lib/obu.py transcribes the AV1 spec framing and header syntax; metadata OBUs unreachable through the API", "4/C02"),
    "C23": ("sched (explicit-state) + srm_h", "model_checking",
            "explicit-state exploration of all thread interleavings of the real SRM code under a controlled scheduler, visited-state cut on raw-memory state hash",
            "All interleavings (no preemption bound) of producers/consumers/releasers/shutdown over the real EbSystemResourceManager.c for every harness size up to 3 objects x 2 producers x 2 consumers x 2 operations; monitors check single holder, conservation, posting order, no lost wake-up, live_count/release_enable semantics, shutdown wake-up, deadlock freedom on every step.",
            "scheduling granularity = SVT mutex/semaphore operations; 64-bit state hash; small scopes", "4/C23"),
    "C04": ("sched (delay-bounded) + encdrv", "model_checking",
            "stateless model checking of the whole encoder under a controlled serialising scheduler: exhaustive enumeration of all schedules with <= d delays and of all schedules with one stall point (the thread running at a decision point becomes arbitrarily slow from there on)",
            "Every schedule with at most 1 delay (thorough: 2 on the smallest session) and every one-stall schedule of complete encode sessions (lp 1/2/4, 1-3 frames; thorough adds a preset-6 5-picture session) is executed on the real library; each must terminate and yield byte-identical packets and recon.",
            "atomicity between SVT synchronisation calls (mutex release included); sessions <= 192x128, <= 5 frames, <= 4 logical processors; delay bound 1, stall bound 1", "4/C04"),
    "C24": ("sched (explicit-state) + seg_h + hook H2", "model_checking",
            "exhaustive enumeration of picture sizes x segment grids on the real initialiser and protocol; explicit-state exploration of all worker interleavings; trace conformance of the model with real encodes",
            "All picture sizes up to 24x16 (thorough 65x34) superblocks x all requested segment grids (up to 2 beyond the picture in each direction) run the real enc_dec_segments_init and a complete one-worker run of the real assign_enc_dec_segments; all interleavings of 2-3 workers are explored for pictures up to 3x3 (thorough 4x3); the traversal rule is validated against kernel traces of real encodes.",
            "traversal rule transcribed from mode_decision_kernel (bound by hook-H2 trace conformance); small scopes for (b)", "4/C24"),
    "C03": ("encdrv under sched + refdec", "model_checking",
            "exhaustive enumeration of call histories (send N, EOS, drain) for all N in a range x GOP-shape cross product, each executed on the real library under the controlled scheduler; quiescence decides end of output",
            "Every history 'send N pictures, EOS, drain' for all N in 0..10 (thorough 0..20,33,34,65) crossed with hierarchical levels x intra period x refresh type x overlays, buffering-field deviations and pts alphabets is executed; packet count/order/pts/dts/p_app_private/EOS, recon count/positions and decoded count/order are checked on each.",
            "canonical schedule only (schedule independence is C04); 64x64 pictures; libaom as decoder", "4/C03"),
    "C05": ("encdrv under sched", "exploration",
            "exhaustive cross product of logical_processors / unpin / target_socket values x size x content x preset x tiling x bit depth; differential oracle against the logical_processors=1 session",
            "Every listed tuple is encoded for all 8 logical-processor classes and the pinning/socket combinations under the controlled scheduler's canonical schedule; packets and recon must be byte-identical to the lp=1 run.",
            "single-socket host; sizes <= 256x192 plus one picture per thread-count dependent segment-grid class (>= 608 wide, >= 352 tall); canonical schedule (schedule independence is C04)", "4/C05"),
    "C06": ("encdrv", "exploration",
            "exhaustive cross product of instruction-set levels x content x bit depth x pipeline x preset (x tool deviations); differential oracle against the C-only session",
            "Every listed tuple is encoded with use_cpu_flags limited to C, SSE2, SSSE3, SSE4.1, AVX2 and ALL; packets and recon must be byte-identical to the C-only run.",
            "AVX-512 kernels are not compiled in the default build; 64x64 / 144x112 pictures", "4/C06"),
    "C11": ("encdrv (asan) under sched", "exploration",
            "bounded-exhaustive enumeration of configurations (deviation bound 1) x extreme sizes x qp extremes x contents in an ASan+UBSan build; deadlock detection by the controlled scheduler",
            "Every configuration within deviation bound 1 of the base plus extreme picture shapes, qp 0/63 and all contents is encoded under ASan+UBSan; any sanitizer report, error packet, deadlock, watchdog overrun or teardown error is a violation keyed by (kind, function / configuration class).",
            "UBSan restricted to arithmetic UB with observable effect; sizes <= 4096x64 / 64x2160 (4096x2160 thorough)", "4/C11"),
    "C27": ("encdrv under sched", "model_checking",
            "exhaustive enumeration of application call patterns (all 2^N drain/skip patterns for small N, bounded departures for larger N) x configurations x drain modes x scheduler priority policies on the real library; plus every schedule in which the application thread is arbitrarily slow from one of its own decision points",
            "All 2^N pacing patterns for N<=5 (6 thorough) and all patterns with <=2 departures from always-drain / k-periodic / end-only for N=9 (17, 24 thorough) are executed under the controlled scheduler; always-drain must complete, every completing pattern must give identical packets and recon; every application-thread stall point of a 26-picture never-drain session must give the canonical output.",
            "quiescence-based definition of 'currently available'; 64x64; canonical schedules of two priority policies", "4/C27"),
    "C09": ("decdrv under sched + hook H1", "model_checking",
            "stateless model checking of the multi-threaded decoder under the controlled scheduler (busy-wait loops and progress stores hooked): all schedules with <= 1 delay (2 thorough) and all schedules with one stall point for 2-4 threads; canonical/mirrored schedules up to 16 threads under ASan+UBSan",
            "Every schedule with at most one delay and every one-stall schedule of complete decode sessions (threads 2,3,(4)) on tiled / superres / SB128 / 10-bit / hierarchical streams is executed; pictures must equal the single-thread decode, no deadlock/livelock/crash, teardown must return.",
            "volatile-flag handshakes assumed acquire/release (x86); data races not decided (no TSan pass in this tier); encoder-produced streams <= 256x256", "4/C09"),
    "C12": ("param_set_h + documentation model", "exploration",
            "bounded-exhaustive enumeration of configuration deviations (every value min-2..max+2 of each documented range, all pairs inside documented coupling groups; thorough: all field pairs over boundary values) against a reference model transcribed from the documentation",
            "Each case runs svt_av1_enc_set_parameter on a fresh handle; EB_ErrorBadParameter must be returned iff the documentation model (97 rows with cited lines, 6 cross constraints) rejects. The model re-verifies its citations against the documents on every run.",
            "large ranges are enumerated at their boundaries only; 3 ambiguous and 8 sparsely documented fields are judged only where guide and header agree; 26 undocumented fields are never deviated", "4/C12"),
    "C13": ("param_def_h + encdrv", "exploration",
            "exhaustive enumeration of prior contents of the caller's configuration memory (256 uniform fills + every structure element x 4 poison patterns), compared with the zero-prefilled run",
            "Field-by-field equality of the returned structure (padding excluded, table completeness checked at run time), set_parameter acceptance and identical packets of a 5-picture encode for every prior content.",
            "one element poisoned at a time or uniform fills, not arbitrary combinations; 64x64 clip, logical_processors 1", "4/C13"),
    "C14": ("api_h (asan) + BFS", "model_checking",
            "explicit-state breadth-first search over API call histories; transition function = the real API replayed in a fresh ASan process; NULL-argument calls in every protocol state followed by normal completion of the session; exhaustive reject sweep: every configuration element x a value menu (plus grouped count deviations), each rejected configuration followed by a valid set_parameter on the same handle",
            "All protocol states reachable with <= 2 pictures (encoder) / <= 2 temporal units (decoder) are explored; in each, every NULL-handle / NULL-buffer call and every protocol-legal call is executed; no crash, error code for NULL arguments, rejected configuration leaves the handle usable (for every element of the configuration structure), a packet may be released twice, no blocking except the owed blocking get_packet.",
            "out-of-order calls with valid pointers are not explored (not demanded); free-running library threads inside each call", "4/C14"),
    "C10": ("decfuzz_h (asan)", "exploration",
            "mutation-bounded exhaustive enumeration of decoder inputs (every truncation, bit flip, byte substitution, OBU-level edit, size-field edit and splice of valid seed streams; all short byte strings) executed on the real decoder under ASan+UBSan with in-process fault capture, every input in an exactly sized allocation",
            "Every input within mutation distance 1 of each seed stream, in three framings (low-overhead with is_annexb 0 / 1, converted to Annex-B units) and both protocols (corrupt unit last / valid units follow), is decoded by a fresh decoder instance followed by teardown; any fault, sanitizer report, hang or teardown failure is a violation keyed by (kind, function).",
            "SVT-encoded seeds only (3 quick, 5 thorough); mutation distance 1; single-threaded decoder", "4/C10"),
    "C16": ("faultinj_h (asan+lsan)", "fault_enumeration",
            "exhaustive single-fault enumeration: for every k, fail exactly the k-th allocation / OS-object creation made by library code during session set-up (link-time interposition), in a forked ASan+LSan child",
            "Quick: first and last dynamic occurrence of every distinct allocation context (1202 contexts) of the encoder set-up and every fault point of the decoder set-up + first frame; thorough: every one of the ~91k encoder fault points. The failing call must return an error code, teardown must return, no crash, leak or thread left.",
            "single faults only; encoder 64x64 lp 1 without pictures; faults in calls made from libc itself are not modelled", "4/C16"),
    "C15": ("encdrv/decdrv (asan+lsan) under sched", "model_checking",
            "exhaustive enumeration of teardown points (call-history prefixes: after handle creation, rejected/accepted configuration, init, k pictures with/without draining, EOS, partial and full drain) x configurations, each executed on the real library under the controlled scheduler with LeakSanitizer",
            "Every teardown point of the alphabet is executed; deinit and deinit_handle must return (a teardown that blocks is a detected deadlock), every thread the library created must have been joined (exact count kept by the scheduler), LeakSanitizer must report nothing, and 5 create/encode/destroy cycles must not increase the exact live-heap byte count.",
            "canonical schedule; 64x64/128x128 sessions with <= 19 pictures; one configuration per core-count class (1, 2-3, >= 4) and per tool-specific buffer family; decoder sessions with 1 and 3 threads", "4/C15"),
    "C07": ("kern_gen + kern_h (per-signature-class drivers)", "exploration",
            "generator parses the SET_* dispatch entries and prototypes of the current tree into a C table; per-signature-class drivers call the C function and every SIMD variant in the build over an exhaustively enumerated argument alphabet (block sizes, strides, bit depths, every value of small scalar parameters, pixel/coefficient pattern alphabet, complete {min,max}^n cubes for inputs of <= 16 samples); outputs poisoned and compared over the whole allocation",
            "Every dispatch pointer with a SIMD variant in the library build (767 of 780; 799 kernel/variant pairs) is compared bit-exactly with its C reference on every tuple of its driver's stated alphabet (38M calls quick, 139M thorough), restricted to the domain the library's call sites can pass; C-only pointers and AVX-512 variants are listed and not run.",
            "the C function bound by the dispatch table is the oracle; AVX-512 kernels not compiled in the default build; pattern alphabets per driver stated in the evidence; float outputs compared bitwise (sign-of-zero-only differences under their own key)", "4/C07"),
    "C25": ("ec_h", "exploration",
            "exhaustive enumeration of all operation sequences up to length L over stated operation alphabets (symbols of n-ary CDFs with 5 table shapes, bools, literals; adaptation off/on) plus constructed long families (k = 1..4096 repetitions with every prefix/suffix of length <= 2, carry-chain constructions, empty sequence), written with the real writer and read back with the real reader",
            "Every sequence of the four layers (185 operations to length 3, 56 to 4, 16 to 6, 6 to 8; thorough 4/5/8/10) and of the long families round-trips: reader values equal the written ones, reader and writer CDFs equal after every symbol, ceil(svt_od_ec_enc_tell/8) >= bytes emitted, no encoder error (78M sequences quick, 12.8e9 thorough).",
            "reader = the static inline functions of EbDecBitstreamUnit.h / EbDecBitReader.h compiled into the harness; alphabets and lengths bound the claim", "4/C25"),
    "C18": ("encdrv + hdr_dump (SVT decoder parse) + refdec", "exploration",
            "bounded-exhaustive enumeration of rate-control mode x QP bounds x qp x fixed-offset patterns x TPL x content x bitrate; base_q_idx of every coded frame read back through the SVT decoder's header parser (libaom-confirmed) and compared with the checker's own quantizer-to-qindex table",
            "Every listed configuration is encoded (64x64, 17 pictures); each coded frame's base_q_idx must lie within qindex(min)..qindex(max) under rate control and equal clip(qindex(qp)+layer offset) with fixed offsets.",
            "bounds not demanded for rate control mode 0 (documented as not applicable); dyadic layer structure assumed for hierarchical_levels 3; no 2-pass; preset 8", "4/C18"),
    "C19": ("encdrv + obu + refdec", "exploration",
            "exhaustive cross product intra period x refresh type x hierarchical levels x overlays x every stream length N up to 2(P+1)+3; displayed frame types reconstructed by an independent OBU parser with reference-slot tracking; random-access decode from every shown key frame with libaom+dav1d",
            "For every (P, refresh type, hl 0..4, overlays, N) the display positions carrying intra-coded frames must equal the multiples of P+1 (IDR: shown KEY_FRAMEs), and decoding from each shown-key-frame packet must succeed in both reference decoders and equal the tail of the full decode.",
            "packet k = display position k (C03); crashing/deadlocking configurations not evaluable (C11/C03); 64x64, preset 8", "4/C19"),
    "C20": ("encdrv/hdr_enc + hdr_dump (SVT decoder parse + BlockModeInfo walk) + refdec", "exploration",
            "bounded-exhaustive enumeration of tool switches (off / on) x presets x screen-content mode x contents, and of tile_rows x tile_columns x picture sizes x superblock size; frame-header fields and per-block tool usage read through the SVT decoder's parser (libaom-confirmed); tile oracle = checker's transcription of AV1 tile_info()",
            "For each of 13 switches the off runs must show no frame-level or block-level use in any coded frame (on runs establish reachability, else VACUOUS); for every requested tiling the signalled tile counts and start positions must equal the spec's uniform-spacing result.",
            "sequence-header enable flags not demanded; portrait sizes not inspectable (SVT decoder crash); intrabc only with screen_content_mode 1; 8-bit", "4/C20"),
    "C17": ("multi_h under sched", "model_checking",
            "exhaustive enumeration of all C(14,7)=3432 interleavings of two 7-step API session scripts (two instances in one process, both static libraries linked together) executed on the real libraries under the controlled scheduler; differential oracle against each instance's solo run",
            "For each instance pair (encoder/encoder with different configurations, decoder/decoder, encoder/decoder) every interleaving of the two scripts at API-call granularity is executed (16 block-structured interleavings for the pairs that differ in one configuration dimension); both instances must return success everywhere and produce exactly their solo output; no crash or deadlock.",
            "API calls of the two instances are serialised (one application thread), overlapping calls are not explored; shared unsynchronised state is decided by its observable effect, not by a race detector", "4/C17"),
    "C08": ("encdrv + decdrv + refdec", "exploration",
            "bounded-exhaustive enumeration of SVT-encoded streams (configuration deviation bound 1 x sizes x contents x lengths); differential oracle: SVT decoder (both pipeline bit depths) vs libaom and dav1d, picture by picture",
            "Every stream of the enumeration is decoded by the SVT decoder with is_16bit_pipeline 0 and 1 and by both reference decoders; picture count, order and every sample must agree, film grain included.",
            "only streams the SVT encoder can produce (no independent encoder was bound): coding tools it never emits are not exercised; single-threaded decoding (C09 covers threads)", "4/C08"),
    "C21": ("encdrv (asan+rel) + s2_c21tight", "exploration",
            "exhaustive cross product of caller-side picture representations (stride, padding bytes, buffer lifetime) x size x bit depth x tool class; differential oracle against the stride=width/kept-buffer session plus AddressSanitizer on freed and tightly allocated planes",
            "Every (size, depth, content, tf/overlay class) is encoded for all stride_extra x padbyte x lifetime combinations; packets and recon must be byte-identical to the group's baseline of the same build, the freed-buffer third and the tight-plane sessions run under ASan and must produce no report.",
            "keep/scribble variants run in the release build (late reads show as different output), free variants in ASan; 6 pictures, hl 2, lp 1, unpacked 10-bit only", "4/C21"),
    "C22": ("s2_relhint (textual extraction) + encdrv + refdec + obu", "exploration",
            "exhaustive evaluation of every get_relative_dist copy over its whole domain against the AV1 formula; exhaustive cross product of stream lengths around 128k and 2048k x GOP shapes with independent decoders and bitstream order hints as oracle; length scan x hierarchical levels under the controlled scheduler",
            "All 5 definitions x order_hint_bits 1..8 x all (a,b) are compared with the specification; every listed length x shape is encoded, decoded by libaom and dav1d, compared with recon, checked for packet order/pts/EOS and for order_hint = position mod 128; hl 0..5 x {33..161} pictures run with deadlock detection.",
            "lengths <= 8192, 64x64 preset 8 lp 1; copies are discovered by regex at check time (a missing expected copy is a violation)", "4/C22"),
    "C26": ("encdrv + refdec + s2_sse", "exploration",
            "exhaustive cross product size x content x preset x tf_level x overlays x hierarchical levels x qp with stat_report=1; independent oracle: SSE between regenerated source and libaom-decoded picture per packet",
            "Every packet of every session carries luma/cb/cr SSE equal to the exact sum over the visible area truncated to 32 bits, including packets that re-display an earlier coded frame; one session exceeds 2^32.",
            "8-bit 4:2:0, 9 pictures, film grain/superres off; ssim fields unchecked; 'screen' is the only content on which temporal filtering alters the source", "4/C26"),
}

NOT_YET = {}


def main():
    props = [json.loads(l) for l in open(os.path.join(ROOT, "properties.jsonl"))]
    ids = [p["id"] for p in props]
    checks = []
    for pid in ids:
        if pid not in CHECKS:
            continue
        eng, cat, tech, text, note, ref = CHECKS[pid]
        checks.append({
            "property_id": pid,
            "quick_cmd": "bin/check %s --tier quick" % pid,
            "thorough_cmd": "bin/check %s --tier thorough" % pid,
            "evidence_file": "/verif/evidence/%s.json" % pid,
            "replay_cmd_template": "bin/check %s --replay {path}" % pid,
            "engine": eng,
            "level_claimed": {"category": cat, "text": text, "design_ref": "DESIGN.md section " + ref},
            "level_note": note,
            "technique": tech,
        })
    na = [{"property_id": pid, "reason": NOT_YET.get(pid, "check not built yet in this session (design in DESIGN.md section 4); no claim is made")}
          for pid in ids if pid not in CHECKS]
    hooks_commits = []
    hc = os.path.join(ROOT, "hooks_commits.txt")
    if os.path.exists(hc):
        hooks_commits = [l.split()[0] for l in open(hc) if l.strip() and not l.startswith("#")]
    m = {
        "version": 1,
        "setup_cmd": "bin/setup",
        "hooks": {
            "guard": "SVT_AV1_VERIF",
            "enable": "every build variant under /verif/build is configured with -DCMAKE_C_FLAGS=-DSVT_AV1_VERIF=1 (lib/vlib.py ensure_build)",
            "baseline_off_cmd": "bin/baseline_off",
            "source_commits": hooks_commits,
            "add_only": True,
        },
        "engines": [
            {"name": "encdrv", "path": "src/encdrv.c", "kind_free_text": "deterministic encode session driver over the public API (free-running or under the controlled scheduler)"},
            {"name": "refdec", "path": "src/refdec.c", "kind_free_text": "libaom + dav1d reference decoders through dlopen"},
            {"name": "obu", "path": "lib/obu.py", "kind_free_text": "independent OBU / header parser"},
            {"name": "sched", "path": "src/sched.c", "kind_free_text": "controlled serialising scheduler (ld --wrap of the SVT thread primitives) + stateless delay-bounded / explicit-state explorer"},
        ],
        "checks": checks,
        "not_applicable": na,
        "notes": "All checks rebuild the static libraries of /repo's working tree (ninja, incremental) before running. Known genuine defects of the pinned tree are listed in known_findings.jsonl and printed as KNOWN-FINDING lines.",
    }
    with open(os.path.join(ROOT, "MANIFEST.json"), "w") as f:
        json.dump(m, f, indent=1)
    print("MANIFEST.json: %d checks, %d not_applicable" % (len(checks), len(na)))


if __name__ == "__main__":
    main()
