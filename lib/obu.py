"""Small independent AV1 OBU / header parser (AV1 spec 5.3 - 5.9), used as an oracle.

Deliberately limited: OBU framing, sequence header, and the leading part of the uncompressed frame
header up to refresh_frame_flags.
"""

OBU_SEQUENCE_HEADER = 1
OBU_TEMPORAL_DELIMITER = 2
OBU_FRAME_HEADER = 3
OBU_TILE_GROUP = 4
OBU_METADATA = 5
OBU_FRAME = 6
OBU_REDUNDANT_FRAME_HEADER = 7
OBU_TILE_LIST = 8
OBU_PADDING = 15
VALID_TYPES = {1, 2, 3, 4, 5, 6, 7, 8, 15}

KEY_FRAME, INTER_FRAME, INTRA_ONLY_FRAME, SWITCH_FRAME = 0, 1, 2, 3


class ParseError(Exception):
    pass


class Bits:
    def __init__(self, data, pos=0):
        self.d = data
        self.p = pos * 8

    def f(self, n):
        v = 0
        for _ in range(n):
            byte = self.p >> 3
            if byte >= len(self.d):
                raise ParseError("read past end of OBU payload")
            v = (v << 1) | ((self.d[byte] >> (7 - (self.p & 7))) & 1)
            self.p += 1
        return v

    def uvlc(self):
        lz = 0
        while True:
            if self.f(1):
                break
            lz += 1
            if lz > 32:
                raise ParseError("uvlc too long")
        if lz >= 32:
            return (1 << 32) - 1
        return self.f(lz) + (1 << lz) - 1


def leb128(data, pos):
    v = 0
    for i in range(8):
        if pos + i >= len(data):
            raise ParseError("leb128 runs past the end")
        b = data[pos + i]
        v |= (b & 0x7f) << (7 * i)
        if not (b & 0x80):
            if v >= (1 << 32):
                raise ParseError("leb128 value too large")
            return v, i + 1
    raise ParseError("leb128 longer than 8 bytes")


def split_obus(data):
    """Returns list of dicts {type, ext, tid, sid, has_size, start, hdr_len, payload(bytes), end}.

    Requires obu_has_size_field=1 for every OBU (low-overhead format) and exact cover of data."""
    out = []
    pos = 0
    n = len(data)
    while pos < n:
        b0 = data[pos]
        if b0 & 0x80:
            raise ParseError("obu_forbidden_bit set at %d" % pos)
        t = (b0 >> 3) & 15
        ext = (b0 >> 2) & 1
        has_size = (b0 >> 1) & 1
        if b0 & 1:
            raise ParseError("obu_reserved_1bit set at %d" % pos)
        h = 1
        tid = sid = 0
        if ext:
            if pos + 1 >= n:
                raise ParseError("truncated extension header")
            e = data[pos + 1]
            tid, sid = e >> 5, (e >> 3) & 3
            if e & 7:
                raise ParseError("extension_header_reserved_3bits set")
            h = 2
        if not has_size:
            raise ParseError("OBU without size field at %d" % pos)
        size, l = leb128(data, pos + h)
        h += l
        if pos + h + size > n:
            raise ParseError("obu_size %d at %d exceeds the packet (%d bytes left)" % (size, pos, n - pos - h))
        if t not in VALID_TYPES:
            raise ParseError("reserved OBU type %d at %d" % (t, pos))
        out.append({"type": t, "ext": ext, "tid": tid, "sid": sid, "start": pos, "hdr_len": h,
                    "payload": bytes(data[pos + h:pos + h + size]), "end": pos + h + size})
        pos += h + size
    return out


def parse_sequence_header(payload):
    b = Bits(payload)
    s = {}
    s["seq_profile"] = b.f(3)
    s["still_picture"] = b.f(1)
    s["reduced_still_picture_header"] = b.f(1)
    s["decoder_model_info_present_flag"] = 0
    s["equal_picture_interval"] = 0
    s["timing_info_present_flag"] = 0
    s["op"] = []
    if s["reduced_still_picture_header"]:
        s["op"].append({"idc": 0, "level": b.f(5), "tier": 0, "dm_present": 0})
    else:
        s["timing_info_present_flag"] = b.f(1)
        if s["timing_info_present_flag"]:
            s["num_units_in_display_tick"] = b.f(32)
            s["time_scale"] = b.f(32)
            s["equal_picture_interval"] = b.f(1)
            if s["equal_picture_interval"]:
                s["num_ticks_per_picture_minus_1"] = b.uvlc()
            s["decoder_model_info_present_flag"] = b.f(1)
            if s["decoder_model_info_present_flag"]:
                s["buffer_delay_length_minus_1"] = b.f(5)
                s["num_units_in_decoding_tick"] = b.f(32)
                s["buffer_removal_time_length_minus_1"] = b.f(5)
                s["frame_presentation_time_length_minus_1"] = b.f(5)
        s["initial_display_delay_present_flag"] = b.f(1)
        cnt = b.f(5) + 1
        for _ in range(cnt):
            op = {"idc": b.f(12), "level": b.f(5), "tier": 0, "dm_present": 0}
            if op["level"] > 7:
                op["tier"] = b.f(1)
            if s["decoder_model_info_present_flag"]:
                op["dm_present"] = b.f(1)
                if op["dm_present"]:
                    n = s["buffer_delay_length_minus_1"] + 1
                    b.f(n)
                    b.f(n)
                    b.f(1)
            if s["initial_display_delay_present_flag"]:
                if b.f(1):
                    b.f(4)
            s["op"].append(op)
    wb = b.f(4) + 1
    hb = b.f(4) + 1
    s["frame_width_bits"] = wb
    s["frame_height_bits"] = hb
    s["max_frame_width"] = b.f(wb) + 1
    s["max_frame_height"] = b.f(hb) + 1
    s["frame_id_numbers_present_flag"] = 0 if s["reduced_still_picture_header"] else b.f(1)
    if s["frame_id_numbers_present_flag"]:
        s["delta_frame_id_length_minus_2"] = b.f(4)
        s["additional_frame_id_length_minus_1"] = b.f(3)
    s["use_128x128_superblock"] = b.f(1)
    s["enable_filter_intra"] = b.f(1)
    s["enable_intra_edge_filter"] = b.f(1)
    s["enable_interintra_compound"] = s["enable_masked_compound"] = s["enable_warped_motion"] = 0
    s["enable_dual_filter"] = s["enable_order_hint"] = s["enable_jnt_comp"] = s["enable_ref_frame_mvs"] = 0
    s["seq_force_screen_content_tools"] = 2
    s["seq_force_integer_mv"] = 2
    s["OrderHintBits"] = 0
    if not s["reduced_still_picture_header"]:
        s["enable_interintra_compound"] = b.f(1)
        s["enable_masked_compound"] = b.f(1)
        s["enable_warped_motion"] = b.f(1)
        s["enable_dual_filter"] = b.f(1)
        s["enable_order_hint"] = b.f(1)
        if s["enable_order_hint"]:
            s["enable_jnt_comp"] = b.f(1)
            s["enable_ref_frame_mvs"] = b.f(1)
        if b.f(1):
            s["seq_force_screen_content_tools"] = 2
        else:
            s["seq_force_screen_content_tools"] = b.f(1)
        if s["seq_force_screen_content_tools"] > 0:
            if b.f(1):
                s["seq_force_integer_mv"] = 2
            else:
                s["seq_force_integer_mv"] = b.f(1)
        else:
            s["seq_force_integer_mv"] = 2
        if s["enable_order_hint"]:
            s["OrderHintBits"] = b.f(3) + 1
    s["enable_superres"] = b.f(1)
    s["enable_cdef"] = b.f(1)
    s["enable_restoration"] = b.f(1)
    # color_config
    hbd = b.f(1)
    bd = 8
    if s["seq_profile"] == 2 and hbd:
        bd = 12 if b.f(1) else 10
    elif hbd:
        bd = 10
    s["bit_depth"] = bd
    mono = 0 if s["seq_profile"] == 1 else b.f(1)
    s["mono_chrome"] = mono
    cdp = b.f(1)
    cp, tc, mc = 2, 2, 2
    if cdp:
        cp, tc, mc = b.f(8), b.f(8), b.f(8)
    if mono:
        b.f(1)
        sx = sy = 1
    elif cp == 1 and tc == 13 and mc == 0:
        sx = sy = 0
    else:
        b.f(1)  # color_range
        if s["seq_profile"] == 0:
            sx = sy = 1
        elif s["seq_profile"] == 1:
            sx = sy = 0
        else:
            if bd == 12:
                sx = b.f(1)
                sy = b.f(1) if sx else 0
            else:
                sx, sy = 1, 0
        if sx and sy:
            b.f(2)
    if not mono:
        s["separate_uv_delta_q"] = b.f(1)
    s["subsampling_x"], s["subsampling_y"] = sx, sy
    s["film_grain_params_present"] = b.f(1)
    # trailing bits: a 1 then zeros to the byte boundary, then nothing
    if b.f(1) != 1:
        raise ParseError("sequence header: trailing_one_bit missing")
    while b.p & 7:
        if b.f(1):
            raise ParseError("sequence header: non-zero trailing bit")
    if (b.p >> 3) != len(payload):
        # spec allows zero padding bytes after trailing bits
        if any(payload[(b.p >> 3):]):
            raise ParseError("sequence header: garbage after trailing bits")
    return s


def parse_frame_header_start(payload, seq, ref_frame_type=None, tid=0, sid=0):
    """Leading part of uncompressed_header().  ref_frame_type: list of 8 frame types held in the slots."""
    b = Bits(payload)
    h = {"show_existing_frame": 0}
    idlen = 0
    if seq["frame_id_numbers_present_flag"]:
        idlen = seq["additional_frame_id_length_minus_1"] + seq["delta_frame_id_length_minus_2"] + 3
    if seq["reduced_still_picture_header"]:
        h.update(frame_type=KEY_FRAME, show_frame=1, showable_frame=0, error_resilient_mode=1)
    else:
        h["show_existing_frame"] = b.f(1)
        if h["show_existing_frame"]:
            h["frame_to_show_map_idx"] = b.f(3)
            if seq["decoder_model_info_present_flag"] and not seq["equal_picture_interval"]:
                b.f(seq["frame_presentation_time_length_minus_1"] + 1)
            h["refresh_frame_flags"] = 0
            if idlen:
                h["display_frame_id"] = b.f(idlen)
            if ref_frame_type is not None:
                h["frame_type"] = ref_frame_type[h["frame_to_show_map_idx"]]
                if h["frame_type"] == KEY_FRAME:
                    h["refresh_frame_flags"] = 0xff
            h["show_frame"] = 1
            return h
        h["frame_type"] = b.f(2)
        h["show_frame"] = b.f(1)
        if h["show_frame"] and seq["decoder_model_info_present_flag"] and not seq["equal_picture_interval"]:
            b.f(seq["frame_presentation_time_length_minus_1"] + 1)
        if h["show_frame"]:
            h["showable_frame"] = int(h["frame_type"] != KEY_FRAME)
        else:
            h["showable_frame"] = b.f(1)
        if h["frame_type"] == SWITCH_FRAME or (h["frame_type"] == KEY_FRAME and h["show_frame"]):
            h["error_resilient_mode"] = 1
        else:
            h["error_resilient_mode"] = b.f(1)
    intra = h["frame_type"] in (KEY_FRAME, INTRA_ONLY_FRAME)
    h["disable_cdf_update"] = b.f(1)
    if seq["seq_force_screen_content_tools"] == 2:
        h["allow_screen_content_tools"] = b.f(1)
    else:
        h["allow_screen_content_tools"] = seq["seq_force_screen_content_tools"]
    if h["allow_screen_content_tools"]:
        if seq["seq_force_integer_mv"] == 2:
            h["force_integer_mv"] = b.f(1)
        else:
            h["force_integer_mv"] = seq["seq_force_integer_mv"]
    else:
        h["force_integer_mv"] = 0
    if idlen:
        h["current_frame_id"] = b.f(idlen)
    if h["frame_type"] == SWITCH_FRAME:
        h["frame_size_override_flag"] = 1
    elif seq["reduced_still_picture_header"]:
        h["frame_size_override_flag"] = 0
    else:
        h["frame_size_override_flag"] = b.f(1)
    h["order_hint"] = b.f(seq["OrderHintBits"])
    if intra or h["error_resilient_mode"]:
        h["primary_ref_frame"] = 7
    else:
        h["primary_ref_frame"] = b.f(3)
    if seq["decoder_model_info_present_flag"]:
        if b.f(1):
            for op in seq["op"]:
                if op["dm_present"]:
                    idc = op["idc"]
                    in_t = (idc >> tid) & 1
                    in_s = (idc >> (sid + 8)) & 1
                    if idc == 0 or (in_t and in_s):
                        b.f(seq["buffer_removal_time_length_minus_1"] + 1)
    if h["frame_type"] == SWITCH_FRAME or (h["frame_type"] == KEY_FRAME and h["show_frame"]):
        h["refresh_frame_flags"] = 0xff
    else:
        h["refresh_frame_flags"] = b.f(8)
    return h


def parse_temporal_unit(data, seq=None, ref_types=None):
    """Parse one packet.  Returns dict with obus, frame headers, and updated (seq, ref_types).

    ref_types: list of 8 entries (frame type held in each reference slot or None)."""
    obus = split_obus(data)
    res = {"obus": [(o["type"], len(o["payload"])) for o in obus], "frames": [], "seq_payloads": [],
           "shown": 0, "errors": []}
    ref_types = list(ref_types) if ref_types else [None] * 8
    seen_fh = None
    for o in obus:
        t = o["type"]
        if t == OBU_SEQUENCE_HEADER:
            res["seq_payloads"].append(o["payload"])
            seq = parse_sequence_header(o["payload"])
        elif t in (OBU_FRAME_HEADER, OBU_FRAME, OBU_REDUNDANT_FRAME_HEADER):
            if seq is None:
                raise ParseError("frame header before any sequence header")
            if t == OBU_REDUNDANT_FRAME_HEADER and seen_fh is not None:
                continue
            if t == OBU_FRAME_HEADER and seen_fh is not None:
                # a second frame header OBU for the same frame must be a copy; treated as new frame otherwise
                pass
            h = parse_frame_header_start(o["payload"], seq, ref_types, o["tid"], o["sid"])
            h["obu_type"] = t
            res["frames"].append(h)
            if h["show_existing_frame"] or h["show_frame"]:
                res["shown"] += 1
            rf = h.get("refresh_frame_flags", 0)
            ft = h.get("frame_type")
            for i in range(8):
                if (rf >> i) & 1:
                    ref_types[i] = ft
            seen_fh = None if (t == OBU_FRAME or h["show_existing_frame"]) else h
        elif t == OBU_TILE_GROUP:
            seen_fh = None if seen_fh is None else seen_fh
    res["seq"] = seq
    res["ref_types"] = ref_types
    return res
