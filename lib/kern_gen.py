"""C07 generator: parse the dispatch tables (SET_* entries) and pointer prototypes of the CURRENT tree and emit a C table.

  entries(repo) -> list of dict(ptr, c, variants=[(isa, func)], ret, params=[type strings], sig, file)
"""
import os
import re

RTCD = [("Source/Lib/Common/Codec/common_dsp_rtcd.c", "Source/Lib/Common/Codec/common_dsp_rtcd.h"),
        ("Source/Lib/Encoder/Codec/aom_dsp_rtcd.c", "Source/Lib/Encoder/Codec/aom_dsp_rtcd.h")]
ISA_POS = ["mmx", "sse", "sse2", "sse3", "ssse3", "sse4_1", "sse4_2", "avx", "avx2", "avx512"]


def strip_comments(t):
    t = re.sub(r"/\*.*?\*/", " ", t, flags=re.S)
    t = re.sub(r"//[^\n]*", " ", t)
    return t


def split_args(s):
    out, depth, cur = [], 0, ""
    for ch in s:
        if ch == "(":
            depth += 1
        elif ch == ")":
            depth -= 1
        if ch == "," and depth == 0:
            out.append(cur.strip())
            cur = ""
        else:
            cur += ch
    if cur.strip():
        out.append(cur.strip())
    return out


def parse_macros(text):
    """SET_xxx(ptr, c, a, b..) -> positions of a, b.. in SET_FUNCTIONS(ptr, c, mmx, sse, ...)"""
    macros = {}
    for m in re.finditer(r"#define\s+(SET_\w+)\(([^)]*)\)\s+SET_FUNCTIONS\(([^)]*)\)", text):
        name, formal, actual = m.group(1), split_args(m.group(2)), split_args(m.group(3))
        if len(actual) != 2 + len(ISA_POS):
            continue
        pos = {}
        for i, a in enumerate(actual[2:]):
            if a in formal:
                pos[formal.index(a)] = ISA_POS[i]
        macros[name] = (formal.index(actual[0]), formal.index(actual[1]), pos)
    return macros


def norm_type(p):
    """parameter declaration -> type without the parameter name"""
    p = re.sub(r"\s+", " ", p.strip())
    if p in ("void", ""):
        return p
    # array parameters  type name[..] -> type *
    arr = re.search(r"\[[^\]]*\]", p)
    p2 = re.sub(r"\[[^\]]*\]", "", p).strip()
    m = re.match(r"^(.*?)([A-Za-z_]\w*)$", p2)
    base = p2
    if m and m.group(1).strip() and m.group(2) not in ("int", "char", "short", "long", "unsigned", "signed", "float", "double",
                                                        "const", "void"):
        # last identifier is the name unless the remaining part is empty or ends with a qualifier only
        rest = m.group(1).strip()
        if re.search(r"[\w\*]$", rest) and not re.fullmatch(r"(const|struct|unsigned|signed|enum)", rest.split()[-1] if rest.split() else ""):
            base = rest
    base = re.sub(r"\s*\*\s*", " *", base).strip()
    base = re.sub(r"\* \*", "**", base)
    base = re.sub(r"\s+", " ", base)
    if arr:
        base += " *"
    base = re.sub(r"\s*\*\s*", "*", base)
    return base


def parse_pointers(text):
    out = {}
    for m in re.finditer(r"RTCD_EXTERN\s+([\w\s\*]+?)\s*\(\s*\*\s*(\w+)\s*\)\s*\((.*?)\)\s*;", text, flags=re.S):
        ret, name, params = re.sub(r"\s+", " ", m.group(1).strip()), m.group(2), split_args(m.group(3))
        out[name] = (ret, [norm_type(p) for p in params], [re.sub(r"\s+", " ", p.strip()) for p in params])
    return out


def entries(repo):
    res, seen = [], set()
    for cfile, hfile in RTCD:
        ctext = strip_comments(open(os.path.join(repo, cfile)).read())
        htext = strip_comments(open(os.path.join(repo, hfile)).read())
        macros = parse_macros(ctext)
        ptrs = parse_pointers(htext)
        for m in re.finditer(r"\b(SET_\w+)\s*\(([^;{}]*?)\)\s*;", ctext):
            mac, args = m.group(1), split_args(m.group(2))
            if mac not in macros or mac == "SET_FUNCTIONS":
                continue
            pi, ci, pos = macros[mac]
            if len(args) <= max([pi, ci] + list(pos)):
                continue
            ptr = args[pi]
            if ptr in seen or not re.fullmatch(r"\w+", ptr):
                continue
            seen.add(ptr)
            ret, ptypes, praw = ptrs.get(ptr, (None, None, None))
            variants = [(isa, args[i]) for i, isa in sorted(pos.items()) if args[i] not in ("0", "NULL")]
            res.append({"ptr": ptr, "c": args[ci], "variants": variants, "ret": ret, "params": ptypes, "raw": praw,
                        "sig": None if ret is None else "%s(%s)" % (ret, ",".join(ptypes)), "file": os.path.basename(cfile)})
    return res


if __name__ == "__main__":
    import collections
    import sys
    es = entries(sys.argv[1] if len(sys.argv) > 1 else "/repo")
    print(len(es), "pointers;", sum(1 for e in es if e["variants"]), "with SIMD variants;", sum(1 for e in es if e["sig"] is None), "without prototype")
    h = collections.Counter(e["sig"] for e in es if e["variants"])
    for s, n in h.most_common():
        names = [e["ptr"] for e in es if e["sig"] == s and e["variants"]]
        print("%4d %s\n       %s" % (n, s, " ".join(names[:6]) + (" ..." if len(names) > 6 else "")))


# ------------------------------------------------------------------------------------------------ driver assignment
def wh(name):
    m = re.search(r"(\d+)x(\d+)", name)
    return (int(m.group(1)), int(m.group(2))) if m else (0, 0)


def rule_modules(groups=None):
    """lib/kern_rules_<group>.py modules: SOURCES (C files in src/), DRIVERS (driver names) and classify(e, w, h)."""
    import glob
    import importlib
    here = os.path.dirname(os.path.abspath(__file__))
    mods = []
    for f in sorted(glob.glob(os.path.join(here, "kern_rules_*.py"))):
        g = os.path.basename(f)[len("kern_rules_"):-3]
        if groups and g not in groups:
            continue
        mods.append(importlib.import_module("kern_rules_" + g))
    return mods


def classify(e, mods):
    """-> (driver name, w, h, a, b) or None when no driver covers the signature"""
    w, h = wh(e["ptr"])
    for m in mods:
        c = m.classify(e, w, h)
        if c:
            return c
    return None


def lib_symbols(libs):
    import subprocess
    syms = set()
    for l in libs:
        out = subprocess.run(["nm", "-g", "--defined-only", l], stdout=subprocess.PIPE, stderr=subprocess.DEVNULL, text=True).stdout
        for line in out.splitlines():
            p = line.split()
            if len(p) == 3 and p[1] in "TtWw":
                syms.add(p[2])
    return syms


ISA_ENUM = {"mmx": "ISA_MMX", "sse": "ISA_SSE", "sse2": "ISA_SSE2", "sse3": "ISA_SSE3", "ssse3": "ISA_SSSE3", "sse4_1": "ISA_SSE4_1",
            "sse4_2": "ISA_SSE4_2", "avx": "ISA_AVX", "avx2": "ISA_AVX2", "avx512": "ISA_AVX512"}


def emit(repo, libs, outpath, mods):
    """Write the C table of every dispatch entry that has at least one SIMD variant present in the library build.

    drivers: names of drivers implemented by the harness. Returns a description (dict) for the evidence."""
    es = entries(repo)
    syms = lib_symbols(libs)
    drivers = [d for m in mods for d in m.DRIVERS]
    lines = ['// generated by lib/kern_gen.py from the SET_* entries of the current tree - do not edit',
             '#include "EbDefinitions.h"', '#include "common_dsp_rtcd.h"', '#include "aom_dsp_rtcd.h"', '#include "kern_core.h"', ""]
    rows, info = [], []
    declared = set()
    for e in es:
        c = classify(e, mods)
        present = [(isa, f) for isa, f in e["variants"] if f in syms]
        absent = [(isa, f) for isa, f in e["variants"] if f not in syms]
        d = {"ptr": e["ptr"], "c": e["c"], "sig": e["sig"], "file": e["file"], "variants": present, "not_in_build": absent,
             "driver": c[0] if c and c[0] in drivers else None}
        info.append(d)
        if not present or e["c"] not in syms or len(present) > 4:
            continue
        for f in [e["c"]] + [f for _, f in present]:
            if f not in declared:
                declared.add(f)
                lines.append("extern __typeof__(*%s) %s;" % (e["ptr"], f))
        drv, w, h, a, b = c if c else ("none", 0, 0, 0, 0)
        d["index"] = len(rows)
        rows.append('    {"%s", "%s", %d, %d, %d, %d, "%s", (void *)%s, %d, {%s}},' % (
            e["ptr"], drv, w, h, a, b, e["c"], e["c"], len(present),
            ", ".join('{"%s", (void *)%s, %s}' % (f, f, ISA_ENUM[isa]) for isa, f in present)))
    lines.append("")
    lines.append("const Kern g_kerns[] = {")
    lines += rows
    lines.append("};")
    lines.append("const int g_nkerns = %d;" % len(rows))
    lines.append("")
    for dn in sorted(drivers):
        lines.append("void drv_%s(Run *r);" % dn)
    lines.append("const Driver g_drivers[] = {")
    for dn in sorted(drivers):
        lines.append('    {"%s", drv_%s},' % (dn, dn))
    lines.append("};")
    lines.append("const int g_ndrivers = %d;" % len(drivers))
    lines.append("")
    lines.append("// the library's own run-time dispatch, configured as in production on this host: C references (and SIMD kernels) that")
    lines.append("// call other kernels through dispatch pointers (svt_memcpy, ...) find them initialised")
    lines.append("void kern_table_init(void) {")
    lines.append("    CPU_FLAGS f = get_cpu_flags_to_use();")
    lines.append("    setup_common_rtcd_internal(f);")
    lines.append("    setup_rtcd_internal(f);")
    lines.append("}")
    txt = "\n".join(lines) + "\n"
    os.makedirs(os.path.dirname(outpath), exist_ok=True)
    if not os.path.exists(outpath) or open(outpath).read() != txt:
        open(outpath, "w").write(txt)
    return info
