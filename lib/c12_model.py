"""C12 reference model: the documented parameter domain of EbSvtAv1EncConfiguration.

Transcribed by hand from the DOCUMENTATION only (never from verify_settings):
  G = Docs/svt-av1_encoder_user_guide.md   (parameter tables: "Range" and "Default" columns, constraint sentences)
  H = Source/API/EbSvtAv1Enc.h             (field comments)
User-guide token names are mapped to structure fields through Source/App/EncApp/EbAppConfig.c
(config_entry[]: token name -> set_xxx() -> cfg->config.<field>).

Conventions
  * a row's documented domain = Range column  U  {Default column value, when numeric}  U  {the value the library itself
    returns for the field from svt_av1_enc_init_handle} (H:731-736 "config_ptr will be loaded with default params from the
    library"; C13 owns the question whether those defaults are well defined).
  * `scale`: the guide documents the command-line unit, the structure holds unit*scale (TargetBitRate: kbps vs bits/second,
    EbAppConfig.c:603-608); only multiples of scale are enumerated.
  * where guide and header contradict each other the row is *ambiguous* (two domains) and only values on which both agree
    are checked; `only` rows list the few values the documents make a statement about (nothing else is checked).
  * fields without any documented range are listed in UNDOCUMENTED and never deviated.
"""
import os

G = "Docs/svt-av1_encoder_user_guide.md"
H = "Source/API/EbSvtAv1Enc.h"
T31 = 2 ** 31
U64 = 2 ** 64 - 1

ROWS = []


def _src(g=None, h=None):
    s = []
    if g:
        s.append("%s:%s" % (G, g))
    if h:
        s.append("%s:%s" % (H, h))
    return s


def R(field, token, lo, hi, g=None, h=None, extra=(), scale=1, note="", also=()):
    """interval row: documented range [lo, hi] (guide units) plus extra documented values (Default column).
    also: further values to enumerate (boundaries that documented cross constraints refer to); no effect on validity."""
    ROWS.append({"field": field, "token": token, "kind": "range", "lo": lo, "hi": hi, "extra": tuple(extra),
                 "scale": scale, "src": _src(g, h), "gline": g, "note": note, "also": tuple(also)})


def S(field, token, values, g=None, h=None, note=""):
    """set row: documented set of values."""
    ROWS.append({"field": field, "token": token, "kind": "set", "values": tuple(values), "lo": min(values),
                 "hi": max(values), "extra": (), "scale": 1, "src": _src(g, h), "gline": g, "note": note})


def A(field, token, guide, header, g=None, h=None, extra=(), note=""):
    """ambiguous row: guide says [guide[0], guide[1]], header says [header[0], header[1]] (or a set)."""
    ROWS.append({"field": field, "token": token, "kind": "ambiguous", "guide": guide, "header": header,
                 "lo": min(guide[0], min(header)), "hi": max(guide[1], max(header)), "extra": tuple(extra),
                 "scale": 1, "src": _src(g, h), "gline": g, "note": note})


def O(field, token, values, g=None, h=None, note="", classes=None):
    """only-check row: {value: documented-valid?}; no statement about any other value.
    classes: optional {value: value-class label} (default: the value itself)."""
    ROWS.append({"field": field, "token": token, "kind": "only", "only": dict(values), "lo": min(values),
                 "hi": max(values), "extra": (), "scale": 1, "src": _src(g, h), "gline": g, "note": note,
                 "classes": dict(classes or {})})


# ---------------------------------------------------------------- Encoder Global Options (G:141-161)
R("source_width", "SourceWidth", 64, 4096, g=144, h="141-144")
R("source_height", "SourceHeight", 0, 2304, g=145, h="145-148")
R("encoder_color_format", "EncoderColorFormat", 0, 3, g=148, h="185-193", extra=(1,))
A("profile", "Profile", (0, 2), (1, 2), g=149, h="572-578",
  note="guide: 0 main / 1 high / 2 professional, default 0; header: 1 = Main, 2 = Main 10, default 2")
O("frame_rate", "FrameRate", {1: True, 2: True, 30: True, 59: True, 60: True, 1000: True, 1 << 16: True, 30 << 16: True,
                              60 << 16: True, 240 << 16: True},
  g=150, h="152-159",
  note="Range column says [0 - 2^64-1] but the description (guide and header) says an integer 1..60 below 1000, else "
       "Q16 with at most 240 fps: only values satisfying both are checked")
R("frame_rate_numerator", "FrameRateNumerator", 0, U64, g=151, h="161-165", extra=(0,), also=(24, 241, 30000, 60000))
R("frame_rate_denominator", "FrameRateDenominator", 0, U64, g=152, h="166-170", extra=(0,), also=(1000, 1001))
S("encoder_bit_depth", "EncoderBitDepth", (8, 10), g=153, h="171-177")
R("is_16bit_pipeline", "Encoder16BitPipeline", 0, 1, g=154, h="178-184", extra=(0,))
R("hierarchical_levels", "HierarchicalLevels", 0, 5, g=155, h="116-120", extra=(4,))
R("pred_structure", "PredStructure", 0, 2, g=156, h="122-138", extra=(2,))
R("high_dynamic_range_input", "HighDynamicRangeInput", 0, 1, g=157, h="567-570", extra=(0,))
O("logical_processors", "LogicalProcessorNumber", {0: True, 1: True, 2: True}, g=159, h="627-630",
  note="[0, total number of logical processor]: upper bound depends on the machine")
R("unpin", "UnpinExecution", 0, 1, g=160, h="632-638", extra=(1,))
R("target_socket", "TargetSocket", -1, 1, g=161, h="640-648", extra=(-1,))
# ---------------------------------------------------------------- Rate Control Options (G:163-179)
R("rate_control_mode", "RateControlMode", 0, 2, g=166, h="474-480", extra=(0,))
R("qp", "QP", 0, 63, g=167, h="219-223", extra=(50,))
R("target_bit_rate", "TargetBitRate", 1, 4294967, g=168, h="498-502", extra=(7000,), scale=1000)
R("use_qp_file", "UseQpFile", 0, 1, g=169, h="225-228", extra=(0,))
R("max_qp_allowed", "MaxQpAllowed", 0, 63, g=171, h="507-511")
R("min_qp_allowed", "MinQpAllowed", 0, 63, g=172, h="512-516")
A("enable_adaptive_quantization", "AdaptiveQuantization", (0, 2), (0, 1), g=173, h="561-564", extra=(0,),
  note="guide [0 - 2]; header: boolean flag, 'Default is FALSE'")
R("vbv_bufsize", "VBVBufSize", 1, 4294967, g=174, h="504-505", scale=1000,
  note="guide default '1 second TargetBitRate' is expressed by leaving the field 0 (the library default)")
R("use_fixed_qindex_offsets", "UseFixedQIndexOffsets", 0, 1, g=175, h="230-233", extra=(0,))
R("qindex_offsets", "QIndexOffsets", -256, 255, g=176, extra=(0,))
R("key_frame_qindex_offset", "KeyFrameQIndexOffset", -256, 255, g=177, extra=(0,))
R("chroma_qindex_offsets", "ChromaQIndexOffsets", -256, 255, g=178, extra=(0,))
R("key_frame_chroma_qindex_offset", "KeyFrameChromaQIndexOffset", -256, 255, g=179, extra=(0,))
# ---------------------------------------------------------------- Twopass Options (G:205-218)
R("vbr_bias_pct", "VBRBiasPct", 0, 100, g=213, h="518-523", extra=(50,))
R("vbr_min_section_pct", "MinSectionPct", 0, U64, g=214, h="524-526", extra=(0,), note="range '[0 - ]' is open")
R("vbr_max_section_pct", "MaxSectionPct", 0, U64, g=215, h="527-529", extra=(2000,), note="range '[0 - ]' is open")
R("under_shoot_pct", "UnderShortPct", 0, 100, g=216, h="530-533", extra=(25,))
A("over_shoot_pct", "OverShortPct", (0, 100), (0, 1000), g=217, h="534-537", extra=(25,),
  note="guide [0 - 100]; header 'can range from 0-1000'")
R("recode_loop", "RecodeLoop", 0, 3, g=218, h="539-545", extra=(2,))
# ---------------------------------------------------------------- Keyframe Placement Options (G:220-224)
R("intra_period_length", "IntraPeriod", -2, T31 - 2, g=223, h="99-108", extra=(-2,), also=(10, 120, 121, 254, 255, 256, 257))
R("intra_refresh_type", "IntraRefreshType", 1, 2, g=224, h="109-115", extra=(2,))
# ---------------------------------------------------------------- AV1 Specific Options (G:226-287)
R("enc_mode", "EncoderMode", 0, 8, g=229, h="29,90-95", extra=(8,),
  note="header text '3 is the highest density mode' is stale; its default MAX_ENC_PRESET is 8 (H:29)")
R("compressed_ten_bit_format", "CompressedTenBitFormat", 0, 1, g=230, h="194-197", extra=(0,))
R("tile_rows", "TileRow", 0, 6, g=231, h="657-661", extra=(0,))
R("tile_columns", "TileCol", 0, 6, g=232, h="657-661", extra=(0,))
R("look_ahead_distance", "LookAheadDistance", 0, 120, g=233, h="485-490", extra=(33,), also=(10,))
R("disable_dlf_flag", "LoopFilterDisable", 0, 1, g=234, h="257-260", extra=(0,))
R("enable_tpl_la", "EnableTPLModel", 0, 1, g=235, h="492-496", extra=(1,))
R("cdef_level", "CDEFLevel", 0, 5, g=236, h="284-287", extra=(-1,))
R("enable_restoration_filtering", "RestorationFilter", 0, 1, g=237, h="289-295", extra=(-1,))
R("sg_filter_mode", "SelfGuidedFilterMode", 0, 4, g=238, h="289-296", extra=(-1,))
R("wn_filter_mode", "WienerFilterMode", 0, 3, g=239, h="289-297", extra=(-1,))
R("enable_mfmv", "Mfmv", 0, 1, g=240, h="323-326", extra=(-1,))
R("enable_redundant_blk", "RedundantBlock", 0, 1, g=241, h="327-330", extra=(-1,))
R("spatial_sse_full_loop_level", "SpatialSSEfl", 0, 1, g=242, h="332-335", extra=(-1,))
R("over_bndry_blk", "OverBoundryBlock", 0, 1, g=243, h="337-340", extra=(-1,))
R("new_nearest_comb_inject", "NewNearestCombInjection", 0, 1, g=244, h="341-344", extra=(-1,))
R("nsq_table", "NsqTable", 0, 1, g=245, h="346-349", extra=(-1,))
R("frame_end_cdf_update", "FrameEndCdfUpdate", 0, 1, g=246, h="350-353", extra=(-1,))
R("set_chroma_mode", "ChromaMode", 0, 3, g=247, h="370-379", extra=(-1,))
R("disable_cfl_flag", "DisableCfl", 0, 1, g=248, h="381-384", extra=(-1,))
R("enable_warped_motion", "LocalWarpedMotion", 0, 1, g=249, h="274-277", extra=(-1,))
R("enable_global_motion", "GlobalMotion", 0, 1, g=250, h="279-282", extra=(1,))
R("pic_based_rate_est", "PicBasedRateEst", 0, 1, g=251, h="421-424", extra=(-1,))
R("intra_angle_delta", "IntraAngleDelta", 0, 1, g=252, h="299-302", extra=(-1,))
R("inter_intra_compound", "InterIntraCompound", 0, 1, g=253, h="304-307", extra=(-1,))
R("enable_paeth", "Paeth", 0, 1, g=254, h="309-312", extra=(-1,))
R("enable_smooth", "Smooth", 0, 1, g=255, h="319-322", extra=(-1,))
R("mrp_level", "MultiReferencePictures", 0, 9, g=256, h="314-317", extra=(-1,))
R("obmc_level", "Obmc", 0, 3, g=257, h="386-400", extra=(-1,))
R("rdoq_level", "RDOQ", 0, 1, g=258, h="402-405", extra=(-1,))
R("filter_intra_level", "FilterIntra", 0, 1, g=259, h="407-414", extra=(-1,))
R("enable_intra_edge_filter", "IntraEdgeFilter", 0, 1, g=260, h="416-419", extra=(-1,))
R("pred_me", "PredMe", 0, 5, g=261, h="355-358", extra=(-1,))
R("bipred_3x3_inject", "Bipred3x3", 0, 2, g=262, h="360-363", extra=(-1,))
R("compound_level", "CompoundLevel", 0, 2, g=263, h="365-368", extra=(-1,))
R("use_default_me_hme", "UseDefaultMeHme", 0, 1, g=264, h="426-429", extra=(1,))
R("enable_hme_flag", "HME", 0, 1, g=265, h="431-434", extra=(1,))
R("enable_hme_level0_flag", "HMELevel0", 0, 1, g=266, h="666-669", extra=(1,))
R("enable_hme_level1_flag", "HMELevel1", 0, 1, g=267, h="671-674")
R("enable_hme_level2_flag", "HMELevel2", 0, 1, g=268, h="676-679")
R("ext_block_flag", "ExtBlockFlag", 0, 1, g=269, h="436-439")
R("search_area_width", "SearchAreaWidth", 1, 480, g=270, h="447-450")
R("search_area_height", "SearchAreaHeight", 1, 480, g=271, h="451-454")
R("screen_content_mode", "ScreenContentMode", 0, 2, g=272, h="547-550", extra=(0,))
R("intrabc_mode", "IntraBCMode", -1, 3, g=273, h="552-559", extra=(-1,))
R("enable_hbd_mode_decision", "HighBitDepthModeDecision", 0, 2, g=274, h="457-464", extra=(1,))
R("palette_level", "PaletteLevel", -1, 6, g=275, h="466-470", extra=(-1,))
R("unrestricted_motion_vector", "UnrestrictedMotionVector", 0, 1, g=276, h="617-623", extra=(1,))
R("speed_control_flag", "SpeedControlFlag", 0, 1, g=279, h="604-610", extra=(0,))
R("film_grain_denoise_strength", "FilmGrain", 0, 50, g=280, h="268-272", extra=(0,))
R("tf_level", "AltRefLevel", 0, 3, g=281, h="698-701", extra=(-1,))
R("altref_strength", "AltRefStrength", 0, 6, g=282, h="698-702", extra=(5,))
R("altref_nframes", "AltRefNframes", 0, 10, g=283, h="698-703", extra=(7,))
R("enable_overlays", "EnableOverlays", 0, 1, g=284, h="698-704", extra=(0,))
R("stat_report", "StatReport", 0, 1, g=287, h="213-216", extra=(0,))
# ---------------------------------------------------------------- header only
O("tier", None, {0: True, 1: True}, h="579-585", note="header lists 0 = Main, 1 = High")
O("scene_change_detection", None, {0: True, 1: True}, h="481-484",
  note="header: 'Flag to enable the scene change detection algorithm. Default is 1.'")

# counts that index fixed-size arrays declared in the header: the declaration bounds the domain
_HME = {2: True, 3: False, 4: False, 100000: False, 2 ** 32 - 1: False}
_HMEC = {3: "above-max", 4: "above-max", 100000: "above-max", 2 ** 32 - 1: "above-max"}
O("number_hme_search_region_in_width", None, _HME, h="25,681-694", classes=_HMEC,
  note="indexes arrays of EB_HME_SEARCH_AREA_COLUMN_MAX_COUNT (2) elements (H:25, H:689-694)")
O("number_hme_search_region_in_height", None, _HME, h="26,681-694", classes=_HMEC,
  note="indexes arrays of EB_HME_SEARCH_AREA_ROW_MAX_COUNT (2) elements (H:26, H:689-694)")
O("enable_manual_pred_struct", None, {0: True, 1: True}, h="715-718", note="flag; see the cross constraint")
O("manual_pred_struct_entry_num", None, {0: True, 1: True, 32: True, 33: True, T31 - 1: True, -1: True, -T31: True},
  h="712-722", classes={33: "above-max", T31 - 1: "above-max", -1: "below-min", -T31: "below-min"},
  note="number of used entries of pred_struct[32] (H:714); on its own (flag off) every value is acceptable")

# guide tokens that are named differently in EbAppConfig.c config_entry[] (the --command-line form is identical)
TOKEN_ALIASES = {"EnableTPLModel": "EnableTplLA", "MultiReferencePictures": "MrpLevel", "AltRefLevel": "TfLevel",
                 "DisableCfl": "DisableCFL", "LogicalProcessorNumber": "LogicalProcessors",
                 "VBRBiasPct": "-bias-pct", "MinSectionPct": "-minsection-pct", "MaxSectionPct": "-maxsection-pct",
                 "UnderShortPct": "-undershoot-pct", "OverShortPct": "-overshoot-pct", "RecodeLoop": "-recode-loop",
                 "Encoder16BitPipeline": "Encoder16BitPipeline"}

UNDOCUMENTED = {
    "render_width": "H:150 no comment", "render_height": "H:150 no comment",
    "sb_sz": "H:199-202 default only", "super_block_size": "H:204-207 default only",
    "partition_depth": "H:208-211 default only", "rc_twopass_stats_in": "H:239-240 (guide: file names only)",
    "rc_firstpass_stats_out": "H:241-250", "enable_qp_scaling_flag": "H:251-254 'Default is null'",
    "enable_denoise_flag": "H:262-266", "in_loop_me_flag": "H:441-444", "level": "H:586-591 (0 = auto only)",
    "use_cpu_flags": "H:593-595 (guide Asm [0-11] is a command-line encoding of bit masks)",
    "channel_id": "H:599-601", "active_channel_count": "H:602 (guide ChannelNumber is the application's instance count)",
    "injector_frame_rate": "H:612-615, guide range 'Null'", "recon_enabled": "H:652-656",
    "hme_level0_total_search_area_width": "H:687", "hme_level0_total_search_area_height": "H:688",
    "hme_level0_search_area_in_width_array": "H:689", "hme_level0_search_area_in_height_array": "H:690",
    "hme_level1_search_area_in_width_array": "H:691", "hme_level1_search_area_in_height_array": "H:692",
    "hme_level2_search_area_in_width_array": "H:693", "hme_level2_search_area_in_height_array": "H:694",
    "ten_bit_format": "H:696", "superres_mode": "H:706-707 (not in the guide)", "superres_denom": "H:708",
    "superres_kf_denom": "H:709", "superres_qthres": "H:710", "pred_struct": "H:712-714 (entry contents)",
}

# ---------------------------------------------------------------- documented cross-parameter constraints
# each: (id, fields, source, violated(cfg) -> True / False / None (documents contradict each other: do not check))


def _c_rc_ip(c):
    return c["rate_control_mode"] >= 1 and not (-2 <= c["intra_period_length"] <= 255)


def _c_minmax(c):
    # H:507-516: both bounds are "only applicable when rate control mode is set to 1" and must satisfy min <= max.
    # rate control mode 0: not applicable -> no constraint; mode 2: the header makes no statement -> not judged.
    if c["min_qp_allowed"] <= c["max_qp_allowed"] or c["rate_control_mode"] == 0:
        return False
    return True if c["rate_control_mode"] == 1 else None


def _c_fps(c):
    return (c["frame_rate_numerator"] == 0) != (c["frame_rate_denominator"] == 0)


def _c_fps240(c):
    # G:150 / H:152-159: "max allowed is 240 fps"; numerator/denominator replace frame_rate when both are non-zero.
    # Rates below 1 fps: the documents only speak of "an integer number between 1 and 60" -> no agreed statement.
    n, d = c["frame_rate_numerator"], c["frame_rate_denominator"]
    if n == 0 or d == 0:
        return False
    if n > 240 * d:
        return True
    if n < d:
        return None
    return False


def _c_manual_ps(c):
    # H:712-722: pred_struct[] has 1 << (MAX_HIERARCHICAL_LEVEL - 1) = 32 entries and manual_pred_struct_entry_num is
    # "the minigop size of prediction structure user defined": with the flag on it must be 1..32.  Whether 1..32 is
    # acceptable depends on the entries' contents, about which the documents say nothing -> not judged.
    if not c["enable_manual_pred_struct"]:
        return False
    if not 1 <= c["manual_pred_struct_entry_num"] <= 32:
        return True
    return None


def _c_profile_depth(c):
    # header: "1 = Main, allows bit depth of 8"; guide: 1 = high profile (10 bit allowed): contradiction for depth 10
    if c["profile"] == 1 and c["encoder_bit_depth"] == 10:
        return None
    return False


CONSTRAINTS = [
    ("rate_control_mode>=1,intra_period_length>255", ("rate_control_mode", "intra_period_length"),
     ["%s:223" % G], _c_rc_ip),
    ("rate_control_mode=1,min_qp_allowed>max_qp_allowed", ("rate_control_mode", "min_qp_allowed", "max_qp_allowed"),
     ["%s:507-516" % H], _c_minmax),
    ("frame_rate_numerator=0^frame_rate_denominator=0", ("frame_rate_numerator", "frame_rate_denominator"),
     ["%s:161-170" % H], _c_fps),
    ("frame_rate_numerator/frame_rate_denominator>240", ("frame_rate_numerator", "frame_rate_denominator"),
     ["%s:150" % G, "%s:152-170" % H], _c_fps240),
    ("enable_manual_pred_struct=1,manual_pred_struct_entry_num-not-in-1..32",
     ("enable_manual_pred_struct", "manual_pred_struct_entry_num"), ["%s:712-722" % H], _c_manual_ps),
    ("profile=1,encoder_bit_depth=10", ("profile", "encoder_bit_depth"), ["%s:572-578" % H, "%s:149" % G],
     _c_profile_depth),
]

# ---------------------------------------------------------------- documented coupling groups (fields the documents
# describe together); all pairs inside a group are enumerated in both tiers, all triples when triples=True
GROUPS = [
    {"name": "rc-keyint-lookahead", "fields": ["rate_control_mode", "intra_period_length", "look_ahead_distance"],
     "src": ["%s:223" % G, "%s:233" % G, "%s:485-490" % H], "triples": True},
    {"name": "rc-qp-bounds", "fields": ["rate_control_mode", "min_qp_allowed", "max_qp_allowed", "qp"],
     "src": ["%s:167-172" % G, "%s:507-516" % H], "triples": True},
    {"name": "frame-rate", "fields": ["frame_rate", "frame_rate_numerator", "frame_rate_denominator"],
     "src": ["%s:150-152" % G, "%s:152-170" % H], "triples": True},
    {"name": "profile-depth-format", "fields": ["profile", "encoder_bit_depth", "encoder_color_format",
                                                "is_16bit_pipeline", "compressed_ten_bit_format",
                                                "enable_hbd_mode_decision"],
     "src": ["%s:148-154" % G, "%s:230" % G, "%s:274" % G, "%s:572-578" % H], "triples": False},
    {"name": "tiles", "fields": ["tile_rows", "tile_columns"], "src": ["%s:231-232" % G, "%s:657-661" % H],
     "triples": False},
    {"name": "screen-content", "fields": ["screen_content_mode", "intrabc_mode", "palette_level"],
     "src": ["%s:272-275" % G, "%s:547-559" % H], "triples": True},
    {"name": "rc-bitrate", "fields": ["rate_control_mode", "target_bit_rate", "vbv_bufsize"],
     "src": ["%s:168" % G, "%s:174" % G, "%s:498-505" % H], "triples": False},
    {"name": "fixed-qindex", "fields": ["rate_control_mode", "use_fixed_qindex_offsets", "use_qp_file",
                                        "hierarchical_levels", "key_frame_qindex_offset",
                                        "key_frame_chroma_qindex_offset"],
     "src": ["%s:175-190" % G], "triples": False},
    {"name": "restoration", "fields": ["enable_restoration_filtering", "sg_filter_mode", "wn_filter_mode"],
     "src": ["%s:237-239" % G, "%s:289-297" % H], "triples": False},
    {"name": "me-hme", "fields": ["use_default_me_hme", "enable_hme_flag", "enable_hme_level0_flag",
                                  "enable_hme_level1_flag", "enable_hme_level2_flag", "search_area_width",
                                  "search_area_height"],
     "src": ["%s:264-271" % G], "triples": False},
    {"name": "threads", "fields": ["logical_processors", "unpin", "target_socket", "pic_based_rate_est"],
     "src": ["%s:159-161" % G, "%s:251" % G, "%s:330" % G], "triples": False},
    {"name": "altref", "fields": ["tf_level", "altref_strength", "altref_nframes", "enable_overlays"],
     "src": ["%s:281-284" % G, "%s:698-704" % H], "triples": False},
    {"name": "picture-size", "fields": ["source_width", "source_height"], "src": ["%s:144-145" % G],
     "triples": False},
    {"name": "manual-pred-struct", "fields": ["enable_manual_pred_struct", "manual_pred_struct_entry_num"],
     "src": ["%s:712-722" % H], "triples": False},
    {"name": "hme-regions", "fields": ["enable_hme_flag", "number_hme_search_region_in_width",
                                       "number_hme_search_region_in_height"],
     "src": ["%s:25-26" % H, "%s:681-694" % H], "triples": False},
    {"name": "two-pass-rc", "fields": ["rate_control_mode", "vbr_bias_pct", "under_shoot_pct", "over_shoot_pct",
                                       "recode_loop"],
     "src": ["%s:213-218" % G], "triples": False},
]

# labels for multi-field disagreements (keeps the number of keys small): first predicate that holds names the class
GROUP_CLASSES = [
    ("frame_rate_numerator/frame_rate_denominator=1..240", {"frame_rate", "frame_rate_numerator", "frame_rate_denominator"},
     lambda c: c["frame_rate_numerator"] and c["frame_rate_denominator"]),
    ("rate_control_mode>=1,min_qp_allowed=63", {"rate_control_mode", "min_qp_allowed", "max_qp_allowed", "qp"},
     lambda c: c["rate_control_mode"] >= 1 and c["min_qp_allowed"] == 63),
    ("rate_control_mode>=1,intra_period_length=121..255",
     {"rate_control_mode", "look_ahead_distance", "intra_period_length"},
     lambda c: c["rate_control_mode"] >= 1 and 121 <= c["intra_period_length"] <= 255),
    ("tile_rows+tile_columns>7,tile_columns<=4", {"tile_rows", "tile_columns"},
     lambda c: c["tile_rows"] + c["tile_columns"] > 7 and c["tile_columns"] <= 4),
    ("tile_rows+tile_columns>7,tile_columns>4", {"tile_rows", "tile_columns"},
     lambda c: c["tile_rows"] + c["tile_columns"] > 7 and c["tile_columns"] > 4),
    ("rate_control_mode=2,look_ahead_distance!=intra_period_length",
     {"rate_control_mode", "look_ahead_distance", "intra_period_length"},
     lambda c: c["rate_control_mode"] == 2 and c["look_ahead_distance"] != c["intra_period_length"]),
]


def verify_sources(repo):
    """The cited guide line of every row must still be the table row of that token, the header lines must exist."""
    errs = []
    gl = open(os.path.join(repo, G), encoding="utf-8").read().split("\n")
    hl = open(os.path.join(repo, H), encoding="utf-8").read().split("\n")
    for r in ROWS:
        if r["gline"]:
            line = gl[r["gline"] - 1] if r["gline"] <= len(gl) else ""
            if "**%s**" % r["token"] not in line:
                errs.append("%s: guide line %d does not document %s" % (r["field"], r["gline"], r["token"]))
        for s in r["src"]:
            if s.startswith(H):
                for part in s.split(":")[1].split(","):
                    a = int(part.split("-")[0])
                    b = int(part.split("-")[-1])
                    if b > len(hl):
                        errs.append("%s: header line %d does not exist" % (r["field"], b))
                    elif r["field"] not in "\n".join(hl[a - 1:b + 12]) and b - a > 0:
                        errs.append("%s: header lines %s do not mention the field" % (r["field"], part))
    return errs
