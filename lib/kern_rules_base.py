"""C07 driver assignment: intra predictors, SAD family, variance, OBMC, forward / inverse transforms."""
import re

SOURCES = ["kern_drv_pred.c", "kern_drv_dist.c", "kern_drv_txfm.c"]
DRIVERS = ["intra_lbd", "intra_hbd", "sad", "sad4d", "variance", "variance_hbd", "obmc_sad", "obmc_variance", "obmc_subpel_variance",
           "fwd_txfm", "inv_txfm", "inv_txfm_lbd"]


def classify(e, w, h):
    n, sig = e["ptr"], e["sig"]
    R = []

    def rule(cond, drv, a=0, b=0, ww=None, hh=None):
        if cond and not R:
            R.append((drv, w if ww is None else ww, h if hh is None else hh, a, b))
    rule(sig == "void(uint8_t*,ptrdiff_t,const uint8_t*,const uint8_t*)" and "_predictor_" in n, "intra_lbd")
    rule(sig in ("void(uint16_t*,ptrdiff_t,const uint16_t*,const uint16_t*,int32_t)",
                 "void(uint16_t*,ptrdiff_t,const uint16_t*,const uint16_t*,int)") and "_predictor_" in n, "intra_hbd")
    rule(sig == "uint32_t(const uint8_t*,int,const uint8_t*,int)" and re.fullmatch(r"svt_aom_sad\d+x\d+", n), "sad")
    rule(re.fullmatch(r"svt_aom_sad\d+x\d+x4d", n) is not None, "sad4d")
    rule(sig == "unsigned int(const uint8_t*,int,const uint8_t*,int,unsigned int*)" and re.fullmatch(r"svt_aom_variance\d+x\d+", n), "variance")
    m = re.fullmatch(r"svt_aom_highbd_(\d+)_variance\d+x\d+", n)
    rule(sig == "unsigned int(const uint8_t*,int,const uint8_t*,int,unsigned int*)" and m is not None, "variance_hbd", a=int(m.group(1)) if m else 0)
    rule(re.fullmatch(r"svt_aom_obmc_sad\d+x\d+", n) is not None, "obmc_sad")
    rule(re.fullmatch(r"svt_aom_obmc_variance\d+x\d+", n) is not None, "obmc_variance")
    rule(re.fullmatch(r"svt_aom_obmc_sub_pixel_variance\d+x\d+", n) is not None, "obmc_subpel_variance")
    m = re.fullmatch(r"svt_av1_fwd_txfm2d_\d+x\d+(_N(\d))?", n)
    rule(m is not None, "fwd_txfm", a=int(m.group(2)) if m and m.group(2) else 0)
    if re.fullmatch(r"svt_av1_inv_txfm2d_add_\d+x\d+", n):
        kind = {7: 0, 9: 1, 8: 2}.get(len(e["params"]))
        rule(kind is not None, "inv_txfm", a=kind if kind is not None else 0)
    rule(n == "svt_av1_inv_txfm_add", "inv_txfm_lbd")
    rule(n == "svt_aom_mse16x16", "variance")
    rule(n == "svt_aom_highbd_8_mse16x16", "mse_void_hbd8")
    return R[0] if R else None


# what each driver enumerates (copied into the evidence)
DOC = {
    'intra_lbd':
        'block size from the name x dst stride {w,w+1,w+16,2w} x edge patterns over [left reversed, top-left, above]: 1-D pattern alphabet + 6 group patterns (above/left extremes, only top-left, only last sample); complete {0,255}^(w+h+1) cube when w+h+1 <= 16 (4x4, 4x8, 8x4)',
    'intra_hbd':
        'as intra_lbd for bit depth 8, 10, 12 (values 0..2^bd-1), cube also for 2x2',
    'sad':
        'block size from the name x src stride x ref stride (4x4) x ref byte offset {0,1} x all pattern pairs (src, ref) over 0..255',
    'sad4d':
        'block size x src stride x ref stride x all pattern pairs; the 4 references are the views +0, +1, +stride, +2*stride+3 of one (w+8)x(h+8) area',
    'variance':
        'as sad, return value and *sse compared (also svt_aom_mse16x16)',
    'variance_hbd':
        'as variance on CONVERT_TO_BYTEPTR(uint16) buffers with samples of the bit depth in the kernel name',
    'obmc_sad':
        'block size x pre stride x all pattern pairs of two of (pre 0..255, wsrc 0..255*4096, mask 0..4096) with the third cycling through {min,max,texture}',
    'obmc_variance':
        'as obmc_sad, return value and *sse',
    'obmc_subpel_variance':
        'as obmc_variance x every (xoffset, yoffset) in 0..7 x 0..7 (quick: pattern pairs thinned 1/8 except offsets (0,0) and (7,7))',
    'fwd_txfm':
        "size from the name (full, N2, N4 variants) x bit depth {8,10,12} x every transform type the syntax allows for the size (library's get_ext_tx_set_type/av1_ext_tx_used, inter or intra) x input stride {w,w+1,w+16,2w} x residual pattern alphabet over +-(2^bd-1); whole w*h output + guards compared",
    'inv_txfm':
        'size x bit depth {8,10,12} x valid transform types x coefficients = C forward transform of each residual pattern (requantised with step 1 and 64, 64-point dimensions zeroed/repacked to 32) x prediction pattern {min,max,mid,texture,checker} x stride x {in-place with the true eob, separate read/write buffers with eob = max} (the two forms the callers use)',
    'inv_txfm_lbd':
        'svt_av1_inv_txfm_add: all 19 transform sizes through TxfmParam, 8-bit pixels, otherwise as inv_txfm',
}
