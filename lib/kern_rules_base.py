"""C07 driver assignment: intra predictors, SAD family, variance, OBMC, forward / inverse transforms."""
import re

SOURCES = ["kern_drv_pred.c", "kern_drv_dist.c", "kern_drv_txfm.c"]
DRIVERS = ["intra_lbd", "intra_hbd", "sad", "sad4d", "variance", "variance_hbd", "obmc_sad", "obmc_variance", "obmc_subpel_variance",
           "fwd_txfm", "inv_txfm", "inv_txfm_lbd"]


def classify(e, w, h):
    n, sig = e["ptr"], e["sig"]
    R = []

    def rule(cond, drv, a=0, b=0, ww=None, hh=None):
        if cond and not R:
            R.append((drv, w if ww is None else ww, h if hh is None else hh, a, b))
    rule(sig == "void(uint8_t*,ptrdiff_t,const uint8_t*,const uint8_t*)" and "_predictor_" in n, "intra_lbd")
    rule(sig in ("void(uint16_t*,ptrdiff_t,const uint16_t*,const uint16_t*,int32_t)",
                 "void(uint16_t*,ptrdiff_t,const uint16_t*,const uint16_t*,int)") and "_predictor_" in n, "intra_hbd")
    rule(sig == "uint32_t(const uint8_t*,int,const uint8_t*,int)" and re.fullmatch(r"svt_aom_sad\d+x\d+", n), "sad")
    rule(re.fullmatch(r"svt_aom_sad\d+x\d+x4d", n) is not None, "sad4d")
    rule(sig == "unsigned int(const uint8_t*,int,const uint8_t*,int,unsigned int*)" and re.fullmatch(r"svt_aom_variance\d+x\d+", n), "variance")
    m = re.fullmatch(r"svt_aom_highbd_(\d+)_variance\d+x\d+", n)
    rule(sig == "unsigned int(const uint8_t*,int,const uint8_t*,int,unsigned int*)" and m is not None, "variance_hbd", a=int(m.group(1)) if m else 0)
    rule(re.fullmatch(r"svt_aom_obmc_sad\d+x\d+", n) is not None, "obmc_sad")
    rule(re.fullmatch(r"svt_aom_obmc_variance\d+x\d+", n) is not None, "obmc_variance")
    rule(re.fullmatch(r"svt_aom_obmc_sub_pixel_variance\d+x\d+", n) is not None, "obmc_subpel_variance")
    m = re.fullmatch(r"svt_av1_fwd_txfm2d_\d+x\d+(_N(\d))?", n)
    rule(m is not None, "fwd_txfm", a=int(m.group(2)) if m and m.group(2) else 0)
    if re.fullmatch(r"svt_av1_inv_txfm2d_add_\d+x\d+", n):
        kind = {7: 0, 9: 1, 8: 2}.get(len(e["params"]))
        rule(kind is not None, "inv_txfm", a=kind if kind is not None else 0)
    rule(n == "svt_av1_inv_txfm_add", "inv_txfm_lbd")
    rule(n == "svt_aom_mse16x16", "variance")
    rule(n == "svt_aom_highbd_8_mse16x16", "mse_void_hbd8")
    return R[0] if R else None
