"""Build helpers and the stateless delay-bounded explorer for harnesses linked with src/sched.c."""
import os
import subprocess

import vlib

WRAPS = ["svt_create_thread", "svt_destroy_thread", "svt_create_mutex", "svt_destroy_mutex",
         "svt_block_on_mutex", "svt_release_mutex", "svt_create_semaphore", "svt_destroy_semaphore",
         "svt_block_on_semaphore", "svt_post_semaphore", "svt_create_cond_var", "svt_set_cond_var",
         "svt_wait_cond_var", "atomic_set_u32", "nanosleep", "pthread_setschedparam"]
WRAP_LD = "-Wl," + ",".join("--wrap=" + w for w in WRAPS)


def build_encdrv(variant):
    extra = "-DVS_TSAN_ANNOTATE=1" if variant == "tsan" else ""
    return vlib.cc_harness(variant, "encdrv_s", ["encdrv.c"], plain_sources=["sched.c"], deps=["param_fields.h"],
                           extra_ldflags=WRAP_LD, extra_cflags=extra)


def build_decdrv(variant):
    extra = "-DVS_TSAN_ANNOTATE=1" if variant == "tsan" else ""
    return vlib.cc_harness(variant, "decdrv_s", ["decdrv.c"], plain_sources=["sched.c"], enc=False, dec=True,
                           extra_ldflags=WRAP_LD, extra_cflags=extra)


def read_trace(path):
    """Returns (list of (nenabled, chosen) per decision point, summary dict)."""
    try:
        with open(path, "rb") as f:
            data = f.read()
    except OSError:
        return [], {}
    i = data.rfind(b"\n#SUMMARY")
    summ = {}
    body = data
    if i >= 0:
        body = data[:i]
        line = data[i + 1:].split(b"\n")[0].decode("latin1")
        for tok in line.split()[1:]:
            if "=" in tok:
                k, v = tok.split("=", 1)
                summ[k] = v
        summ["detail"] = data[i + 1:].decode("latin1")
    pts = [(body[k], body[k + 1]) for k in range(0, len(body) - 1, 2)]
    return pts, summ


def delays_str(devs):
    return ",".join("%d:%d" % (p, c) for p, c in devs)


def successors(devs, pts, budget):
    """Delay-bounded successors of a schedule: deviations strictly after the last one, cost = alternative index."""
    last = devs[-1][0] if devs else -1
    out = []
    for i in range(last + 1, len(pts)):
        n = pts[i][0]
        for c in range(1, min(n - 1, budget) + 1):
            out.append(devs + [(i, c)])
    return out


# ------------------------------------------------------------------ stateless delay-bounded explorer
import concurrent.futures
import json
import tempfile
import time


def run_schedule(exe, argv, devs, env=None, timeout=120, workdir=None, keep_trace=False, policy=0, stalls=()):
    """One execution of the harness under the given delay vector (and stall points)."""
    workdir = workdir or os.path.join(vlib.BUILD, "work", "sched")
    os.makedirs(workdir, exist_ok=True)
    fd, tr = tempfile.mkstemp(prefix="tr", dir=workdir)
    os.close(fd)
    en = dict(os.environ)
    en["SVT_LOG"] = "-2"
    en["VS_DELAYS"] = delays_str(devs)
    en["VS_TRACE"] = tr
    en["VS_POLICY"] = str(policy)
    en["VS_STALL"] = ",".join(str(int(x)) for x in stalls)
    if env:
        en.update(env)
    t0 = time.time()
    try:
        p = subprocess.run([exe] + argv, stdout=subprocess.PIPE, stderr=subprocess.PIPE, env=en, timeout=timeout)
        rc, out, err, to = p.returncode, p.stdout, p.stderr, False
    except subprocess.TimeoutExpired as t:
        rc, out, err, to = None, t.stdout or b"", t.stderr or b"", True
    pts, summ = read_trace(tr)
    if not keep_trace:
        try:
            os.unlink(tr)
        except OSError:
            pass
    res = {"rc": rc, "timeout": to, "devs": devs, "stalls": list(stalls), "policy": policy, "pts": pts, "summary": summ, "wall": time.time() - t0,
           "stderr": err[-60000:].decode("latin1")}
    line = out.decode("latin1").strip().split("\n")[-1] if out.strip() else ""
    try:
        res["out"] = json.loads(line)
    except Exception:
        res["out"] = None
        res["stdout"] = out[-1000:].decode("latin1")
    return res


class Exploration:
    """Enumerates every schedule with total delay <= bound (iteratively: 0, then 1, ...) until the deadline."""

    def __init__(self, exe, argv, env=None, timeout=120, workers=None, policy=0):
        self.exe, self.argv, self.env, self.timeout = exe, argv, env, timeout
        self.workers = workers or vlib.NCPU
        self.policy = policy
        self.executions = 0
        self.transitions = 0
        self.trace_hashes = set()
        self.outcomes = {}
        self.max_enabled = 0
        self.completed_bound = -1
        self.capped = False
        self.divergences = []
        self.samples = []

    def run(self, bound, on_result, deadline):
        """on_result(res) is called for every execution (in the calling thread)."""
        buckets = {d: [] for d in range(bound + 1)}  # schedules by total delay
        buckets[0] = [[]]
        with concurrent.futures.ThreadPoolExecutor(self.workers) as ex:
            for d in range(0, bound + 1):
                it = iter(buckets[d])
                pending = set()
                exhausted = False
                while True:
                    while not exhausted and len(pending) < 2 * self.workers:
                        if time.time() > deadline:
                            exhausted = True
                            self.capped = True
                            break
                        try:
                            devs = next(it)
                        except StopIteration:
                            exhausted = True
                            break
                        pending.add(ex.submit(run_schedule, self.exe, self.argv, devs, self.env, self.timeout,
                                              None, False, self.policy))
                    if not pending:
                        break
                    done, pending = concurrent.futures.wait(pending, return_when=concurrent.futures.FIRST_COMPLETED)
                    for f in done:
                        res = f.result()
                        self.executions += 1
                        self.transitions += len(res["pts"])
                        s = res["summary"]
                        if s.get("trace_hash"):
                            self.trace_hashes.add(s["trace_hash"])
                        try:
                            self.max_enabled = max(self.max_enabled, int(s.get("max_enabled", 0)))
                        except ValueError:
                            pass
                        if res["rc"] == 6:
                            self.divergences.append(res["devs"])
                        if len(self.samples) < 4 and res["devs"]:
                            self.samples.append({"delays": delays_str(res["devs"]), "points": len(res["pts"]),
                                                 "trace_hash": s.get("trace_hash")})
                        on_result(res)
                        if d < bound and res["rc"] == 0:
                            for sc in successors(res["devs"], res["pts"], bound - d):
                                buckets[d + sc[-1][1]].append(sc)
                if self.capped:
                    return
                self.completed_bound = d
                buckets[d] = None


def app_thread_points(exe, argv, env=None, timeout=120, policy=0):
    """decision points of the canonical schedule at which thread 0 (the application thread) is the one to run"""
    fd, tf = tempfile.mkstemp(prefix="t0", dir=os.path.join(vlib.BUILD, "work"))
    os.close(fd)
    e = dict(env or {})
    e["VS_T0POINTS"] = tf
    run_schedule(exe, argv, [], e, timeout, policy=policy)
    try:
        pts = [int(l) for l in open(tf).read().split()]
    finally:
        os.unlink(tf)
    return pts


def stall_sweep(exe, argv, on_result, deadline, env=None, timeout=120, policy=0, workers=None, stride=1, only_points=None):
    """Every schedule with exactly one stall point: for each decision point p of the canonical schedule the thread running at p
    is made arbitrarily slow from p on (VS_STALL=p).  Returns dict(executions, transitions, points, complete, trace_hashes)."""
    base = run_schedule(exe, argv, [], env, timeout, policy=policy)
    on_result(base)
    npts = len(base["pts"])
    st = {"executions": 1, "transitions": npts, "points": npts, "complete": True, "trace_hashes": set(), "stride": stride}
    if base["rc"] != 0:
        return st
    todo = iter(range(0, npts, stride) if only_points is None else [p for p in only_points if p < npts])
    with concurrent.futures.ThreadPoolExecutor(workers or vlib.NCPU) as ex:
        pending, exhausted = set(), False
        while True:
            while not exhausted and len(pending) < 2 * (workers or vlib.NCPU):
                if time.time() > deadline:
                    exhausted, st["complete"] = True, False
                    break
                try:
                    p = next(todo)
                except StopIteration:
                    exhausted = True
                    break
                pending.add(ex.submit(run_schedule, exe, argv, [], env, timeout, None, False, policy, (p,)))
            if not pending:
                break
            done, pending = concurrent.futures.wait(pending, return_when=concurrent.futures.FIRST_COMPLETED)
            for f in done:
                res = f.result()
                st["executions"] += 1
                st["transitions"] += len(res["pts"])
                if res["summary"].get("trace_hash"):
                    st["trace_hashes"].add(res["summary"]["trace_hash"])
                on_result(res)
    return st
